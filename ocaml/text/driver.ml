(* text group: escaping, colour stripping, codepage conversion. The code tables (the oracle of the
   Coq model) are loaded from $VDRIVER_TABLES: lines "<letter> <codepoint> <hexbytes>". *)
let enc_tab : (int * int, n list) Hashtbl.t = Hashtbl.create 100000
let dec_tab : (int * int list, int list) Hashtbl.t = Hashtbl.create 100000
let lead_tab : (int * int, bool) Hashtbl.t = Hashtbl.create 2000
let loaded = ref false
let load () =
  if not !loaded then begin
    loaded := true;
    match Sys.getenv_opt "VDRIVER_TABLES" with
    | None -> ()
    | Some path when Sys.file_exists path ->
        let ic = open_in path in
        (try while true do
           let line = input_line ic in
           match Stdlib.String.split_on_char ' ' line with
           | ["E"; l; c; h] ->
               Hashtbl.replace enc_tab (int_of_string l, int_of_string c) (bytes_of_hex h)
           | ["D"; l; h; c] ->
               (* a byte sequence may decode to more than one scalar (Big5-HKSCS 88 62 = U+00CA U+0304): "c1+c2" *)
               let l = int_of_string l and c = Stdlib.List.map int_of_string (Stdlib.String.split_on_char '+' c) in
               let ib = Stdlib.List.map int_of_n (bytes_of_hex h) in
               Hashtbl.replace dec_tab (l, ib) c;
               (match ib with [a; _] -> Hashtbl.replace lead_tab (l, a) true | _ -> ())
           | _ -> ()
         done with End_of_file -> close_in ic)
    | Some _ -> ()
  end
let enc (l : n) (c : n) : n list option = load (); Hashtbl.find_opt enc_tab (int_of_n l, int_of_n c)
(* lossy decode over the loaded tables: ASCII is itself, known 1- and 2-byte sequences map to their
   character, anything else to U+FFFD (only valid sequences are compared against the implementation) *)
let dec (l : n) (bs : n list) : n list =
  load ();
  let l = int_of_n l in
  let rec go bs = match bs with
    | [] -> []
    | b :: t when b < 128 -> b :: go t
    | b :: t ->
        (match t with
         | b2 :: t2 when Hashtbl.mem lead_tab (l, b) && Hashtbl.mem dec_tab (l, [b; b2]) -> Hashtbl.find dec_tab (l, [b; b2]) @ go t2
         | _ -> (match Hashtbl.find_opt dec_tab (l, [b]) with Some c -> c @ go t | None -> 0xFFFD :: go t))
  in Stdlib.List.map n_of_int (go (Stdlib.List.map int_of_n bs))
(* strings are passed as lists of code points: "u:41,42,20ac" or "-" *)
let cps_of s = if s = "-" then [] else Stdlib.List.map (fun x -> n_of_int (int_of_string ("0x" ^ x))) (Stdlib.String.split_on_char ',' s)
let show_cps l = if l = [] then "-" else Stdlib.String.concat "," (Stdlib.List.map (fun c -> Printf.sprintf "%x" (int_of_n c)) l)
let handle (toks : Stdlib.String.t list) : Stdlib.String.t =
  match toks with
  | ["escape"; s] -> show_cps (escape (cps_of s))
  | ["unescape"; s] -> show_cps (unescape (cps_of s))
  | ["strip"; s] -> show_cps (strip (cps_of s))
  | ["tobytes"; s] -> hex_of_bytes (to_lossy_bytes enc (cps_of s))
  | ["tostring"; h] -> show_cps (to_lossy_string dec (bytes_of_hex h))
  | ["oraclecheck"] ->
      (* the Section hypotheses of the round-trip theorem that tie the scanner's lead-byte classification (regenerated from
         is_double_byte_lead) and the ^8 table to the code tables: counted violations over every table entry *)
      load ();
      let l2 = ref 0 and l1 = ref 0 and pr = ref 0 in
      Hashtbl.iter (fun (l, _) w ->
        match w with
        | [b1; _] -> if not (lead (n_of_int l) b1) then incr l2
        | [b1] -> if lead (n_of_int l) b1 then incr l1
        | _ -> ()) enc_tab;
      let p = int_of_n gen_propagate_letter and d = int_of_n gen_default_codepage in
      Hashtbl.iter (fun (l, bs) c -> if l = p then (match Hashtbl.find_opt dec_tab (d, bs) with Some c' when c' = c -> () | _ -> incr pr)
                                     else if l = d then (match Hashtbl.find_opt dec_tab (p, bs) with Some c' when c' = c -> () | _ -> incr pr)) dec_tab;
      Printf.sprintf "oracle lead2:%d lead1:%d prop:%d" !l2 !l1 !pr
  | _ -> "?bad-op"
let () = main handle
