(* Props/C03.v — every successfully encoded frame is a single well-formed frame. *)
Require Import Coq.Strings.String Net.Concrete.
Require Import Base.Bytes Wire.Layout Wire.Customs Wire.LayoutProofs Wire.CustomProofs Wire.Packet Wire.PacketChecks Wire.PacketProofs.
Require Import Gen.Packets Net.Frame Net.FrameProofs.
Local Open Scope N_scope.

(* whenever encoding succeeds, for every kind, every value (in or out of domain), both modes:
   the result is a complete frame for the mode (4 <= length <= limit, announced = length), its
   length is a multiple of 4, the size byte is length (or length/4), byte 1 is the kind *)
Theorem c03_encoded_frame_wellformed : forall m p fr,
  frame_encode m p = Ok fr ->
  wf_frame m fr /\ Nat.modulo (length fr) 4 = 0%nat /\
  (exists n body, fr = n :: body /\ unparse p = Ok body /\ (N.to_nat n * mul m = length fr)%nat /\ n < 256) /\
  (forall ty vs tv, p = PV ty vs tv -> nth_error fr 1 = Some ty).
Proof. exact frame_encode_wellformed. Qed.

(* a packet too large for the mode is refused loudly (the encode_length panic), never emitted *)
Theorem c03_too_large_refused : forall m p body,
  unparse p = Ok body -> (max_length m < S (length body))%nat -> frame_encode m p = Panic.
Proof. exact frame_encode_too_large. Qed.

(* the size computation itself: Ok n implies n * mul = len exactly, n fits a byte, len within limits *)
Theorem c03_size_byte_exact : forall m len n, encode_length m len = Ok n ->
  (min_len <= len)%nat /\ (len <= max_length m)%nat /\ (Nat.modulo len (mul m) = 0)%nat /\
  (N.to_nat n * mul m = len)%nat /\ n < 256.
Proof. exact encode_length_ok. Qed.

(* decoding what was encoded consumes it completely and returns the same packet (hence the same
   kind), for in-domain values *)
Theorem c03_encoded_frame_decodes_completely : forall m p fr,
  pindom p = true -> frame_encode m p = Ok fr -> frame_decode m fr = Got p [].
Proof. intros m p fr Hd He. pose proof (frame_roundtrip m p fr [] Hd He) as H. rewrite app_nil_r in H. exact H. Qed.

(* a packet obtained by decoding a frame the encoder produced never makes the encoder abort *)
Theorem c03_decoded_never_aborts_partial : forall m p fr p',
  pindom p = true -> frame_encode m p = Ok fr -> frame_decode m fr = Got p' [] -> frame_encode m p' <> Panic.
Proof. intros m p fr p' Hd He Hdec. rewrite (frame_reencode_identical m p fr p' Hd He Hdec). discriminate. Qed.

(* per-layout size conditions hold for all 73 generated layouts (finite check) *)
Theorem c03_all_layouts_multiple_of_4 : forallb kind_size4 packet_table = true.
Proof. exact table_size4. Qed.

(* the codec of the source keeps no state between calls: its struct has the size mode as its only field (regenerated
   field names; the codec model is a pure function of the mode), and a connection struct has no field besides those
   the connection models carry *)
Theorem c03_codec_is_stateless_like_the_model : state_tied = true.
Proof. vm_compute. reflexivity. Qed.

