(* Core/TimeProofs.v — time and race-length conversions (C15): scaled durations of the layout DSL,
   RaceLaps, the Small sub-type durations. All by arithmetic over N, no enumeration. *)
Require Import Coq.Strings.String.
Require Import Base.Bytes Wire.Layout Wire.Customs Wire.LayoutProofs Wire.CustomProofs Wire.Packet Gen.Packets.
Require Import ZifyN ZifyNat ZifyBool.
Ltac Zify.zify_post_hook ::= Z.div_mod_to_equations.
Local Open Scope N_scope.

Notation enc_dur w scale ms := (enc_atom cenc 0 (ADur w scale) (VN ms)).
Notation dec_dur w scale bs := (dec_atom cdec (ADur w scale) bs).

(* encoding a duration: floor to the field's resolution, or an error when it does not fit *)
Theorem dur_encode_floor_or_refuse w scale ms :
  enc_dur w scale ms = if ms / scale <? pow256 w then Ok (le_enc w (ms / scale)) else Err.
Proof. reflexivity. Qed.

(* every wire value decodes to a duration that re-encodes to the same wire value *)
Theorem dur_wire_roundtrip w scale x : 0 < scale -> x < pow256 w ->
  dec_dur w scale (le_enc w x) = Ok (VN (x * scale), None) /\ enc_dur w scale (x * scale) = Ok (le_enc w x).
Proof.
  intros Hs Hx. unfold pow256 in Hx. split.
  - cbn [dec_atom]. rewrite le_dec_enc by exact Hx. reflexivity.
  - cbn [enc_atom]. rewrite N.div_mul by lia. rewrite (proj2 (N.ltb_lt x (pow256 w))) by exact Hx. reflexivity.
Qed.

(* never a different in-range value: what is encoded is exactly floor(ms / scale) *)
Theorem dur_encode_exact_value w scale ms b : enc_dur w scale ms = Ok b ->
  le_dec b = ms / scale /\ ms / scale < pow256 w.
Proof.
  cbn [enc_atom]. destruct (N.ltb_spec (ms / scale) (pow256 w)) as [H|]; [|discriminate].
  intros [= <-]. unfold pow256 in H. rewrite le_dec_enc by exact H. auto.
Qed.

(* the (width, scale) pairs that occur in the regenerated layouts *)
Definition dur_atom_ok (f : string * atom) : bool :=
  match snd f with
  | ADur w scale => ((Nat.eqb w 2) || (Nat.eqb w 4)) && ((scale =? 1) || (scale =? 10))
  | _ => true
  end.
Definition layout_durs_ok (l : layout) : bool :=
  forallb dur_atom_ok (fixed l) && match ltail l with TVec elt _ _ => forallb dur_atom_ok elt | _ => true end.
Lemma all_durations_known : forallb (fun e => match snd e with KLayout l => layout_durs_ok l | KMso => true end) packet_table = true.
Proof. vm_compute. reflexivity. Qed.

(* ---- race laps ---- *)
Theorem racelaps_wire_roundtrip b : b <= 238 ->
  let '(tag, n) := racelaps_of_u8 b in racelaps_to_u8 tag n = b.
Proof.
  intros Hb. unfold racelaps_of_u8.
  destruct (N.eqb_spec b 0) as [->|H0]; [reflexivity|].
  destruct (N.leb_spec b 99) as [H99|H99].
  { unfold racelaps_to_u8. cbn [N.eqb Pos.eqb]. change (1 =? 1) with true. cbv iota.
    rewrite (proj2 (N.leb_le 1 b)) by lia. rewrite (proj2 (N.leb_le b 99)) by lia. cbn [andb].
    apply N.mod_small. lia. }
  destruct (N.leb_spec b 190) as [H190|H190].
  { unfold racelaps_to_u8. change (1 =? 1) with true. cbv iota.
    set (n := (b - 100) * 10 + 100).
    replace ((1 <=? n) && (n <=? 99)) with false by (symmetry; apply andb_false_iff; right; apply N.leb_gt; lia).
    rewrite (proj2 (N.leb_le 100 n)) by lia. rewrite (proj2 (N.leb_le n 1000)) by lia. cbn [andb].
    replace ((n - 100) / 10) with (b - 100) by (subst n; lia). rewrite N.mod_small by lia. lia. }
  rewrite (proj2 (N.leb_le b 238)) by lia.
  unfold racelaps_to_u8. change (2 =? 1) with false. change (2 =? 2) with true. cbv iota.
  rewrite (proj2 (N.leb_le 1 (b - 190))) by lia. rewrite (proj2 (N.leb_le (b - 190) 48)) by lia. cbn [andb].
  rewrite N.mod_small by lia. lia.
Qed.

Theorem racelaps_reserved_bytes_are_practice b : 239 <= b -> racelaps_of_u8 b = (0, 0).
Proof.
  intros Hb. unfold racelaps_of_u8.
  destruct (N.eqb_spec b 0); [lia|].
  replace (b <=? 99) with false by (symmetry; apply N.leb_gt; lia).
  replace (b <=? 190) with false by (symmetry; apply N.leb_gt; lia).
  replace (b <=? 238) with false by (symmetry; apply N.leb_gt; lia). reflexivity.
Qed.

(* encode side, for ALL lap / hour counts: the byte is either practice (0) or decodes to the same
   count, or (laps 100..1000) to the count rounded down to the field's 10-lap resolution *)
Theorem racelaps_encode_never_a_different_value tag n :
  let b := racelaps_to_u8 tag n in
  b = 0 \/ racelaps_of_u8 b = (tag, n) \/
  (tag = 1 /\ 100 <= n <= 1000 /\ racelaps_of_u8 b = (1, n - n mod 10)).
Proof.
  cbv zeta. destruct (racelaps_dom tag n) eqn:Hd.
  { right. left. apply racelaps_roundtrip. exact Hd. }
  unfold racelaps_dom in Hd. unfold racelaps_to_u8 at 1.
  destruct (N.eqb_spec tag 0) as [->|H0]; [left; reflexivity|].
  destruct (N.eqb_spec tag 1) as [->|H1].
  - apply orb_false_iff in Hd as [Ha Hb].
    destruct ((1 <=? n) && (n <=? 99)); [discriminate|].
    destruct ((100 <=? n) && (n <=? 1000)) eqn:Hr; [|left; reflexivity].
    right. right. apply andb_prop in Hr as [Hlo Hhi]. apply N.leb_le in Hlo, Hhi.
    split; [reflexivity|]. split; [lia|].
    assert (Hdom : racelaps_dom 1 (n - n mod 10) = true).
    { unfold racelaps_dom. change (1 =? 0) with false. change (1 =? 1) with true. cbv iota.
      apply orb_true_iff. right. rewrite (proj2 (N.leb_le 100 (n - n mod 10))) by lia.
      rewrite (proj2 (N.leb_le (n - n mod 10) 1000)) by lia. cbn [andb]. apply N.eqb_eq. lia. }
    pose proof (racelaps_roundtrip 1 (n - n mod 10) Hdom) as Hrt.
    assert (Heq : racelaps_to_u8 1 n = racelaps_to_u8 1 (n - n mod 10)).
    { unfold racelaps_to_u8. change (1 =? 1) with true. cbv iota.
      replace ((1 <=? n) && (n <=? 99)) with false by (symmetry; apply andb_false_iff; right; apply N.leb_gt; lia).
      replace ((1 <=? n - n mod 10) && (n - n mod 10 <=? 99)) with false by (symmetry; apply andb_false_iff; right; apply N.leb_gt; lia).
      rewrite (proj2 (N.leb_le 100 n)) by lia. rewrite (proj2 (N.leb_le n 1000)) by lia.
      rewrite (proj2 (N.leb_le 100 (n - n mod 10))) by lia. rewrite (proj2 (N.leb_le (n - n mod 10) 1000)) by lia.
      cbn [andb]. f_equal. f_equal. lia. }
    rewrite Heq. exact Hrt.
  - destruct (N.eqb_spec tag 2) as [->|H2]; [|left; reflexivity].
    destruct ((1 <=? n) && (n <=? 48)); [discriminate|]. left. reflexivity.
Qed.

(* ---- Small durations (after the checked-narrowing fix): all 2^32 wire values, both scales ---- *)
Theorem small_duration_wire_roundtrip d u : is_cs d = true \/ d = 7 -> u < u32max ->
  exists x, small_dec d u = Ok (d, x) /\ small_enc d x = Ok (d, u).
Proof.
  intros [Hcs| ->] Hu.
  - exists (u * 10). unfold small_dec, small_enc.
    assert (d <> 0) by (intros ->; discriminate). destruct (N.eqb_spec d 0); [contradiction|]. rewrite Hcs.
    split; [reflexivity|]. rewrite N.div_mul by lia. rewrite (proj2 (N.ltb_lt u u32max) Hu). reflexivity.
  - exists u. split; [reflexivity|]. rewrite small_enc_7, (proj2 (N.ltb_lt u u32max) Hu). reflexivity.
Qed.

Theorem small_duration_out_of_range_refused d x : is_cs d = true -> u32max <= x / 10 -> small_enc d x = Err.
Proof.
  intros Hcs Hx. unfold small_enc. assert (d <> 0) by (intros ->; discriminate).
  destruct (N.eqb_spec d 0); [contradiction|]. rewrite Hcs.
  replace (x / 10 <? u32max) with false by (symmetry; apply N.ltb_ge; exact Hx). reflexivity.
Qed.
