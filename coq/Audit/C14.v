Require Import Coq.Strings.String.
Require Import Base.Bytes Core.Vehicle Wire.Layout Wire.Customs Wire.CustomProofs Gen.TrackTab Core.TrackProofs Props.C14.
Local Open Scope N_scope.
Check c14_wire_form_is_padded_code : forall i, In i track_ids ->
  exists bs, track_write i = Ok bs /\ bs = pad6 (code_of i) /\ length bs = 6%nat /\ track_read bs = Ok i.
Check c14_decode_unique : forall bs i, track_read bs = Ok i -> track_write i = Ok bs.
Check c14_flags_follow_the_code : forall i, In i track_ids ->
  memb i track_reverse_set = last_is (code_of i) [82; 89] /\
  memb i track_open_set = last_is (code_of i) [88; 89] /\
  (memb i track_open_set = true -> assoc i track_distance_tab = Some false).
Check c14_one_licence_per_area : forall i j, In i track_ids -> In j track_ids ->
  area i = area j -> exists l, lic i = Some l /\ lic j = Some l.
Check c14_tables_complete : track_ids = map fst track_code_tab /\ N.of_nat (length track_ids) = track_count
  /\ forallb name_ok track_ids = true.
Print Assumptions c14_wire_form_is_padded_code.
Print Assumptions c14_decode_unique.
Print Assumptions c14_flags_follow_the_code.
Print Assumptions c14_one_licence_per_area.
Print Assumptions c14_tables_complete.
