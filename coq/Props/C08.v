(* Props/C08.v — UDP datagrams are delivered intact for arbitrarily long sessions. *)
Require Import Base.Bytes Net.Frame Net.FrameProofs Net.Framed Net.FramedProofs Net.Async Net.NoHoldBack Net.Adaptor Net.AdaptorSession Net.Concrete Gen.NetConsts.
Local Open Scope N_scope.

(* Both UDP adaptors are one model: receive the datagram into a scratch array, keep it in the
   adaptor's own buffer, serve the connection's reads from that buffer.  For every packet layer
   that never panics (C04), every mode, every sequence of datagrams each holding one or more
   complete frames and fitting the scratch array, and EVERY sequence of slice sizes the
   connection may offer (so: whatever the state of its receive buffer, however much traffic
   preceded), the session returns exactly one result per frame, in order. *)
Theorem c08_session_intact :
  forall (packet : Type) (parse : bytes -> res packet) (ver_of : packet -> option N)
         (is_keepalive : packet -> bool) (version : N) (m : mode) (verify : bool) (pong : bytes),
  (forall b, parse b <> Panic) ->
  forall scratch (dgs : list (list bytes)) sizes fuel,
    Forall (fun fs => fs <> [] /\ Forall (wf_frame m) fs) dgs ->
    Forall (fun fs => (length (concat fs) <= scratch)%nat) dgs ->
    let items := udp_items scratch (map (@concat N) dgs) in
    (weight items <= length sizes)%nat ->
    let es := fst (fst (serve true sizes [] items)) in
    (length (concat dgs) + length es < fuel)%nat ->
    filter (keep packet) (session packet parse ver_of is_keepalive version m verify pong fuel [] (es ++ [Eof]))
      = concat (map (expected_frame packet parse ver_of is_keepalive version verify pong) (concat dgs)) ++ [Ret RDisconnected].
Proof. exact udp_session. Qed.

(* no packet waits for more traffic: a frame that is completely in the receive buffer is delivered by the next read() with
   no further input from the transport (a peer that sends nothing more until its packets have been read is not kept waiting).
   Blocking connection: the result is the frame's own, the rest of the buffer stays, the transport script is untouched ... *)
Theorem c08_buffered_frame_is_served_without_more_input :
  forall (packet : Type) (parse : bytes -> res packet) (ver_of : packet -> option N)
         (is_keepalive : packet -> bool) (version : N) (m : mode) (verify : bool) (pong : bytes),
  (forall b, parse b <> Panic) ->
  forall f rest tr, wf_frame m f ->
    read packet parse ver_of is_keepalive version m verify pong (f ++ rest) tr
      = (expected_frame packet parse ver_of is_keepalive version verify pong f, rest, tr).
Proof. exact read_serves_buffered_frame. Qed.

(* ... tokio connection: a fresh read() with nothing parked does not touch the read half and does not suspend in the transport
   read - it completes, or waits for the WRITE half to take a keep-alive reply *)
Theorem c08_buffered_frame_is_served_without_more_input_async :
  forall (packet : Type) (parse : bytes -> res packet) (ver_of : packet -> option N)
         (is_keepalive : packet -> bool) (version : N) (m : mode) (verify : bool) (pong : bytes),
  (forall b, parse b <> Panic) ->
  forall f rest (s : fstate packet) rs ws, wf_frame m f ->
    fbuf s = f ++ rest -> pend_w s = [] -> pend_p s = None ->
    let '(o, s', rs', ws', w) := poll_from packet parse ver_of is_keepalive version m verify pong Top s rs ws in
    rs' = rs /\ o <> PPending InRead.
Proof. exact poll_serves_buffered_frame. Qed.

(* the adaptor alone, any slice sizes: every chunk handed over is non-empty and the chunks, what is
   still buffered and what is still pending are together exactly the datagram payloads, in order *)
Theorem c08_adaptor_loses_nothing : forall eof sizes buf items,
  no_end items = true -> (eof = true -> no_empty items = true) ->
  let '(es, buf', items') := serve eof sizes buf items in
  Forall chunk_ok es /\ buf ++ payload items = data_of es ++ buf' ++ payload items'.
Proof. exact serve_stream. Qed.

(* enough reads drain the adaptor completely *)
Theorem c08_adaptor_drains : forall eof sizes buf items,
  no_end items = true -> (eof = true -> no_empty items = true) ->
  (length buf + weight items <= length sizes)%nat ->
  let '(es, buf', items') := serve eof sizes buf items in buf' = [] /\ payload items' = [].
Proof. exact serve_drains. Qed.

(* the scratch arrays found in the source hold a maximum-size (1020-byte) datagram *)
Theorem c08_scratch_holds_max_datagram : udp_scratch_ok = true.
Proof. vm_compute. reflexivity. Qed.

(* why the buffer is needed: receiving straight into a smaller slice discards the rest of the datagram
   (the defect repaired by ca34db9), and is harmless only when the slice is at least the datagram *)
Theorem c08_direct_receive_refuted : exists d c, direct_recv d c <> d.
Proof. exact direct_recv_loses_data. Qed.
Theorem c08_direct_receive_intact_only_if_fits : forall d c, (length d <= S c)%nat -> direct_recv d c = d.
Proof. exact direct_recv_intact_only_if_fits. Qed.

(* writes: one call hands the whole frame to the socket as one datagram, and write_all is then done *)
Theorem c08_write_is_one_datagram : forall frame, frame <> [] ->
  fst (awrite frame) = [IBytes frame] /\
  write_all [WAccept (pred (snd (awrite frame)))] frame = (frame, WOk, []).
Proof. exact awrite_write_all. Qed.

(* the connection structs and the codec of the source have exactly the fields the models carry as state (regenerated field
   names): nothing else can be left behind by a failed or dropped write *)
Theorem c08_model_state_is_the_struct : state_tied = true.
Proof. vm_compute. reflexivity. Qed.


(* non-vacuity: two datagrams (two frames + one frame), slices of 3 bytes, then an empty datagram *)
Example c08_example :
  run_adaptor_session Compressed false [([3;0;0], (0, CKeep)); ([3;1;2], (1, COther))]
    true 1020 [IBytes [1;3;0;0;1;3;1;2]; IBytes [1;3;1;2]; IBytes []] (repeat 2%nat 9)
  = [Wrote [1;3;0;0]; Ret (RPacket (0, CKeep)); Ret (RPacket (1, COther)); Ret (RPacket (1, COther)); Ret RDisconnected].
Proof. vm_compute. reflexivity. Qed.
