Require Import Coq.Strings.String Net.Concrete.
Require Import Props.C03.
Require Import Base.Bytes Wire.Layout Wire.Customs Wire.LayoutProofs Wire.CustomProofs Wire.Packet Wire.PacketChecks Wire.PacketProofs.
Require Import Gen.Packets Net.Frame Net.FrameProofs.
Local Open Scope N_scope.
Check c03_encoded_frame_wellformed : forall m p fr,
  frame_encode m p = Ok fr ->
  wf_frame m fr /\ Nat.modulo (length fr) 4 = 0%nat /\
  (exists n body, fr = n :: body /\ unparse p = Ok body /\ (N.to_nat n * mul m = length fr)%nat /\ n < 256) /\
  (forall ty vs tv, p = PV ty vs tv -> nth_error fr 1 = Some ty).
Check c03_too_large_refused : forall m p body,
  unparse p = Ok body -> (max_length m < S (length body))%nat -> frame_encode m p = Panic.
Check c03_size_byte_exact : forall m len n, encode_length m len = Ok n ->
  (min_len <= len)%nat /\ (len <= max_length m)%nat /\ (Nat.modulo len (mul m) = 0)%nat /\
  (N.to_nat n * mul m = len)%nat /\ n < 256.
Check c03_encoded_frame_decodes_completely : forall m p fr,
  pindom p = true -> frame_encode m p = Ok fr -> frame_decode m fr = Got p [].
Check c03_decoded_never_aborts_partial : forall m p fr p',
  pindom p = true -> frame_encode m p = Ok fr -> frame_decode m fr = Got p' [] -> frame_encode m p' <> Panic.
Check c03_all_layouts_multiple_of_4 : forallb kind_size4 packet_table = true.
Check c03_codec_is_stateless_like_the_model : state_tied = true.
Print Assumptions c03_encoded_frame_wellformed.
Print Assumptions c03_too_large_refused.
Print Assumptions c03_size_byte_exact.
Print Assumptions c03_encoded_frame_decodes_completely.
Print Assumptions c03_decoded_never_aborts_partial.
Print Assumptions c03_all_layouts_multiple_of_4.
Print Assumptions c03_codec_is_stateless_like_the_model.
