//! C05 (segmentation independence), C06 (writes), C07 (keep-alive), C09 (version gate):
//! case generation, implementation runs (blocking + tokio), direct oracles, model case lines.
use std::collections::HashSet;

use insim::{net::{blocking_impl::Framed as BFramed, tokio_impl::Framed as AFramed, Codec}, Packet};

use crate::{common::*, net::*};

fn partition(rng: &mut Rng, stream: &[u8], style: u64) -> Vec<Vec<u8>> {
    let mut out = vec![]; let mut i = 0;
    while i < stream.len() {
        let n = match style {
            0 => 1,
            1 => rng.range(1, 3),
            2 => rng.range(1, 40),
            3 => rng.range(1, 2000),
            4 => rng.range(3000, 20000),
            _ => *rng.pick(&[1u64, 2, 3, 4, 5, 7, 8, 100, 1019, 1020, 1021, 6119, 6120, 6121]),
        } as usize;
        let n = n.min(stream.len() - i);
        out.push(stream[i..i + n].to_vec()); i += n;
    }
    out
}

fn with_errors(rng: &mut Rng, chunks: Vec<Vec<u8>>, rate: u64, allow_elapsed: bool) -> Vec<REv> {
    let mut evs = vec![];
    for c in chunks {
        while rate > 0 && rng.chance(rate, 100) {
            if allow_elapsed && rng.chance(1, 4) { evs.push(REv::Elapsed) } else { evs.push(REv::Err(rng.below(5) as u8)) }
        }
        evs.push(REv::Data(c));
    }
    while rate > 0 && rng.chance(rate, 100) { evs.push(REv::Err(rng.below(5) as u8)); }
    evs.push(REv::Eof);
    evs
}

struct Runner { rt: tokio::runtime::Runtime, sessions: u64, nontrivial: HashSet<u64>, min_offered: usize, max_offered: usize }

fn fnv(s: &str) -> u64 { let mut h = 0xcbf29ce484222325u64; for b in s.bytes() { h ^= b as u64; h = h.wrapping_mul(0x100000001b3); } h }

impl Runner {
    fn new() -> Self { Runner { rt: runtime(), sessions: 0, nontrivial: HashSet::new(), min_offered: usize::MAX, max_offered: 0 } }
    /// run one scripted session on both implementations, check the oracle, emit model cases
    fn session(&mut self, prop: &str, fr: &Frames, idx: &RepIndex, verify: bool, evs: &[REv], st: &mut Stats, out: &mut Out, corr: bool) {
        self.session_ws(prop, fr, idx, verify, evs, &[], st, out, corr)
    }
    /// ws: readiness script of the write half (accept k bytes / not ready); the outgoing bytes are collected per read(), so a
    /// reply that is not complete when its keep-alive is returned shows up as a short or missing W token
    fn session_ws(&mut self, prop: &str, fr: &Frames, idx: &RepIndex, verify: bool, evs: &[REv], ws: &[WEv], st: &mut Stats, out: &mut Out, corr: bool) {
        let line = format!("session {} {} {} | {}", mode_tag(fr.compressed), verify as u8, fr.table(), evs.iter().map(ev_tag).collect::<Vec<_>>().join(" "));
        let max_reads = fr.frames.len() + evs.len() + 8;
        for imp in ["B", "A"] {
            let (trace, off) = if imp == "B" { session_blocking(fr, idx, verify, evs, ws, max_reads) } else { session_async(&self.rt, fr, idx, verify, evs, ws, max_reads) };
            for o in &off { self.min_offered = self.min_offered.min(*o); self.max_offered = self.max_offered.max(*o); }
            st.evaluations += 1; self.sessions += 1;
            if let Some(w) = session_oracle(fr, verify, evs, &trace) { st.fail(format!("[{prop} {}] {w}{}", if imp == "B" { "blocking" } else { "tokio" }, if ws.is_empty() { String::new() } else { format!(" (write half: {})", ws.iter().map(wtag).collect::<Vec<_>>().join(" ")) }), format!("{imp} {line}{}", if ws.is_empty() { String::new() } else { format!(" || {}", ws.iter().map(wtag).collect::<Vec<_>>().join(" ")) })); }
            // the model does not distinguish the two implementations: blocking read timeouts surface as TO as well
            if corr { out.case(&line, &trace.join(" ")); }
        }
        let split = evs.iter().any(|e| matches!(e, REv::Data(d) if d.len() % 4 != 0 || d.len() < 4));
        if fr.frames.len() >= 2 && split { let _ = self.nontrivial.insert(fnv(&line)); }
        st.bump(&format!("frames:{}", match fr.frames.len() { 0 => "0", 1 => "1", 2..=3 => "2-3", 4..=20 => "4-20", 21..=100 => "21-100", _ => ">100" }));
        let total: usize = fr.frames.iter().map(|f| f.len()).sum();
        st.bump(&format!("stream_bytes:{}", match total { 0..=16 => "<=16", 17..=1020 => "<=1020", 1021..=6120 => "<=6120", _ => ">6120(buffer capacity)" }));
        st.add("events:transient", evs.iter().filter(|e| matches!(e, REv::Err(_) | REv::Elapsed)).count() as u64);
    }
}

pub fn replay_session(prop: &str, r: &str) -> i32 {
    // "<B|A> session <M> <V> <frames..> | <events..>"
    let toks: Vec<&str> = r.split_whitespace().collect();
    let imp = toks[0]; let compressed = toks[2] == "C"; let verify = toks[3] == "1";
    let bar = toks.iter().position(|t| *t == "|").unwrap();
    let frames: Vec<Vec<u8>> = toks[4..bar].iter().map(|t| { let p: Vec<&str> = t.split(':').collect(); let body = unhex(p[1]); let mut f = vec![size_byte(compressed, body.len() + 1)]; f.extend(body); f }).collect();
    let bar2 = toks.iter().position(|t| *t == "||").unwrap_or(toks.len());
    let evs: Vec<REv> = toks[bar + 1..bar2].iter().map(|t| parse_ev(t)).collect();
    let ws: Vec<WEv> = toks.get(bar2 + 1..).unwrap_or(&[]).iter().map(|t| match &t[..1] { "a" => WEv::Accept(t[1..].parse().unwrap()), "p" => WEv::Pending, _ => WEv::Fail(t[1..].parse().unwrap()) }).collect();
    let fr = Frames::new(compressed, frames); let idx = RepIndex::new(&fr);
    let max_reads = fr.frames.len() + evs.len() + 8;
    let (trace, _) = if imp == "B" { session_blocking(&fr, &idx, verify, &evs, &ws, max_reads) } else { session_async(&runtime(), &fr, &idx, verify, &evs, &ws, max_reads) };
    match session_oracle(&fr, verify, &evs, &trace) {
        Some(w) => { println!("FAIL [{prop}] {w}\n trace: {}", trace.join(" ")); 1 },
        None => { println!("PASS trace: {}", trace.join(" ")); 0 },
    }
}

fn compositions(stream: &[u8], mask: u32) -> Vec<Vec<u8>> {
    // bit i of mask set = cut after byte i
    let mut out = vec![]; let mut cur = vec![];
    for (i, b) in stream.iter().enumerate() { cur.push(*b); if i + 1 == stream.len() || (mask >> i) & 1 == 1 { out.push(std::mem::take(&mut cur)); } }
    out
}

pub fn run_c05(a: &Args) {
    if let Some(r) = &a.replay { std::process::exit(replay_session("C05", r)); }
    let mut rng = Rng::new(a.seed);
    let mut st = Stats::default(); let mut out = Out::new(&a.out); let mut run = Runner::new();
    for compressed in [true, false] {
        let pool = frame_pool(&mut rng, compressed);
        // 1. exhaustive: every composition of two short streams
        let shorts: Vec<Vec<Vec<u8>>> = vec![
            vec![raw_frame(compressed, 3, 0, &[0]), raw_frame(compressed, 3, 7, &[3]), raw_frame(compressed, 200, 1, &[9])],
            vec![raw_frame(compressed, 4, 1, &[1, 5, 0, 0, 0]), raw_frame(compressed, 3, 0, &[0])],
        ];
        let bits = if a.thorough() { 15 } else { 11 };
        for (si, s) in shorts.iter().enumerate() {
            let mut frames = s.clone();
            if a.thorough() && si == 0 { frames.push(raw_frame(compressed, 3, 1, &[1])); }
            let fr = Frames::new(compressed, frames); let idx = RepIndex::new(&fr);
            let stream = fr.stream();
            let n = (stream.len() - 1).min(bits);
            for mask in 0..(1u32 << n) {
                let evs: Vec<REv> = compositions(&stream, mask).into_iter().map(REv::Data).chain([REv::Eof]).collect();
                run.session("C05", &fr, &idx, true, &evs, &mut st, &mut out, mask % 4 == 0 || !a.thorough());
            }
            st.exhaustive.push(format!("all 2^{} compositions of a {}-byte stream of {} frames ({} mode)", n, stream.len(), fr.frames.len(), mode_tag(compressed)));
        }
        // 2. every pool frame alone and byte-by-byte
        for f in &pool {
            let fr = Frames::new(compressed, vec![f.clone()]); if fr.frames.is_empty() { continue; }
            let idx = RepIndex::new(&fr);
            let evs: Vec<REv> = partition(&mut rng, &fr.stream(), 0).into_iter().map(REv::Data).chain([REv::Eof]).collect();
            run.session("C05", &fr, &idx, true, &evs, &mut st, &mut out, true);
            // ... and followed by the beginning of another frame when the stream ends (the peer went away in mid-frame): the complete frame is
            // delivered, then 'disconnected' - on both connections alike
            for cut in [1usize, 2, 3, f.len() - 1] { if cut >= f.len() { continue; }
                let mut evs: Vec<REv> = vec![REv::Data(fr.stream())]; evs.push(REv::Data(f[..cut].to_vec())); evs.push(REv::Eof);
                run.session("C05", &fr, &idx, true, &evs, &mut st, &mut out, cut == 2);
                st.bump("streams ending inside a frame");
            }
        }
        // 3. random sessions, incl. far beyond the 6120-byte buffer, with transient errors
        let nrand = if a.thorough() { 1500 } else { 120 };
        for i in 0..nrand {
            let k = match i % 6 { 0 => rng.range(1, 4), 1 | 2 => rng.range(4, 40), 3 | 4 => rng.range(40, 200), _ => rng.range(200, 600) } as usize;
            let frames: Vec<Vec<u8>> = (0..k).map(|_| rng.pick(&pool).clone()).collect();
            let fr = Frames::new(compressed, frames); let idx = RepIndex::new(&fr);
            let style = rng.below(6);
            let chunks = partition(&mut rng, &fr.stream(), style);
            let rate = *rng.pick(&[0u64, 0, 5, 20]);
            let evs = with_errors(&mut rng, chunks, rate, true);
            let verify = rng.chance(1, 2);
            run.session("C05", &fr, &idx, verify, &evs, &mut st, &mut out, true);
        }
    }
    st.distinct_nontrivial = run.nontrivial.len() as u64;
    st.rule = "scripted sessions on the real blocking and tokio Framed: all compositions of short multi-frame streams, every pool frame byte-by-byte, random sessions of 1..600 frames (all 73 kinds, keep-alives, version packets, undecodable and unknown-type frames) cut by 6 partition styles with injected transient errors/timeouts; distinct = distinct (frames, script); non-trivial = >= 2 frames and at least one read that is not frame-aligned".into();
    st.notes.push(format!("read slice sizes offered by the connections: min {} max {} bytes (buffer capacity 6120)", run.min_offered, run.max_offered));
    st.sample("session C 1 f:030000:K:0 f:030703:O:1 | D0103 D0000 D01030703 Z  ->  W01030000 P0 P1 DC".into());
    // the same independence with the caller's own write() / handshake() calls in between, and (tokio) with dropped read() futures
    { let c1 = crate::conv::sync_conversations("C05", a, &mut rng, "ka", &mut st, &mut out); let c2 = crate::conv::async_conversations("C05", a, &mut rng, &mut st, &mut out); st.distinct_nontrivial += (c1.distinct.len() + c2.distinct.len()) as u64; }
    crate::net::report_unconsumed("C05", &mut st);
    out.finish(&st);
}

/// the write half FAILS in the middle of a keep-alive reply (after 0..3 of its 4 bytes: would-block, reset, broken pipe): whatever the
/// connection then reports, a keep-alive is handed to the caller only once its whole reply has been written - an error is never swallowed
/// with a truncated reply left on the transport for the caller's next frame to land behind
fn reply_failure_cases(prop: &str, rt: &tokio::runtime::Runtime, st: &mut Stats, out: &mut Out) {
    for compressed in [true, false] { for imp in ["B", "A"] { for taken in 0..4usize { for kind in [0u8, 2, 3] { for later_ok in [false, true] {
        st.evaluations += 1; st.bump("write failure inside a keep-alive reply");
        let ka = raw_frame(compressed, 3, 0, &[0]); let other = raw_frame(compressed, 3, 7, &[4]);
        let fr = Frames::new(compressed, vec![ka.clone(), other.clone()]); let idx = RepIndex::new(&fr);
        let mut ws: Vec<WEv> = vec![]; if taken > 0 { ws.push(WEv::Accept(taken - 1)); } ws.push(WEv::Fail(kind)); if !later_ok { ws.push(WEv::Fail(kind)); ws.push(WEv::Fail(kind)); }
        let evs = vec![REv::Data(fr.stream()), REv::Eof];
        let (trace, _) = if imp == "B" { session_blocking(&fr, &idx, false, &evs, &ws, 6) } else { session_async(rt, &fr, &idx, false, &evs, &ws, 6) };
        if imp == "B" {
            // model: the keep-alive reply on a failing write half (Net/Framed.v reply_then_return)
            let mut w0: Vec<u8> = vec![]; let mut res = "blocked".to_string();
            for t in &trace { if let Some(h) = t.strip_prefix('W') { w0.extend(unhex(h)); } else { res = if t == "P0" { "ok".into() } else if let Some(k) = t.strip_prefix("IO") { format!("err{k}") } else if t == "TO" { "err?TO".into() } else { t.clone() }; break; } }
            if !(kind == 0 && res == "err?TO") { out.case(&format!("kareply {} {}", mode_tag(compressed), ws.iter().map(|w| match w { WEv::Accept(k) => format!("a{k}"), WEv::Pending => "p".into(), WEv::Fail(k) => format!("f{k}") }).collect::<Vec<_>>().join(" ")), &format!("{} {res}", hex(&w0))); }
        }
        let mut written: Vec<u8> = vec![]; let mut bad: Option<String> = None;
        for t in &trace { if let Some(h) = t.strip_prefix('W') { written.extend(unhex(h)); } else if t == "P0" { if written.len() < 4 || written[..4] != ka[..] { bad = Some(format!("the keep-alive is handed to the caller while the transport holds {} of its reply", if written.is_empty() { "nothing".to_string() } else { hex(&written) })); } break; } }
        if let Some(w) = bad { st.fail(format!("[{prop} {}] {w} (the write half took {taken} byte(s), then failed with {:?}); results {:?}", if imp == "B" { "blocking" } else { "tokio" }, KINDS[kind as usize], trace), format!("kafail {imp} {} {taken} {kind} {}", mode_tag(compressed), later_ok as u8)); }
    } } } } }
}

/// tokio: a read() dropped while its keep-alive reply is half written, then a caller write() that is itself dropped at its first not-ready
/// poll (a select! branch that loses), then a read() that runs to the end: the keep-alive is handed over only after its whole reply - the reply
/// is connection state, not state of whichever future happens to be flushing it.
pub fn abandoned_write_cases(prop: &str, rt: &tokio::runtime::Runtime, st: &mut Stats) {
    use std::task::Poll;
    for compressed in [true, false] { for taken in 1..4usize { for pends in [1usize, 3] {
        st.evaluations += 1; st.bump("a dropped read, then a dropped write, then a read");
        let ka = raw_frame(compressed, 3, 0, &[0]);
        let fr = Frames::new(compressed, vec![ka.clone()]); let _idx = RepIndex::new(&fr);
        let mut ws: Vec<WEv> = vec![WEv::Accept(taken - 1)]; for _ in 0..pends + 1 { ws.push(WEv::Pending); }
        let t = Transport::new(vec![REv::Data(fr.stream()), REv::Pend, REv::Eof], ws);
        let id = format!("abandonedwrite {} {taken} {pends}", mode_tag(compressed));
        let r = guard(|| rt.block_on(async {
            let mut f = AFramed::new(Box::new(t.clone()), Codec::new(mode_of(compressed)));
            // 1. read: polled until it has pended `pends` times, then dropped
            { let mut fut = Box::pin(f.read()); let mut n = 0; loop { match futures_util::poll!(fut.as_mut()) { Poll::Ready(_) => break, Poll::Pending => { n += 1; if n >= pends { break; } } } } }
            // 2. a write polled once and dropped when it is not ready
            { let p = Packet::Tiny(insim::insim::Tiny { reqi: insim::identifiers::RequestId(9), subt: insim::insim::TinyType::Ping }); let mut fut = Box::pin(f.write(p)); let _ = futures_util::poll!(fut.as_mut()); }
            let before = t.0.lock().unwrap().all_written.clone();
            // 3. the transport is ready again: read to the end
            t.0.lock().unwrap().wscript.clear();
            let got = tokio::time::timeout(std::time::Duration::from_secs(5), f.read()).await;
            let after = t.0.lock().unwrap().all_written.clone();
            (before, format!("{:?}", got).chars().take(60).collect::<String>(), matches!(got, Ok(Ok(ref p)) if p.maybe_pong().is_some()), after)
        }));
        match r {
            None => st.fail(format!("[{prop} tokio] panic in the dropped-read / dropped-write sequence"), id),
            Some((before, shown, handed, after)) => {
                // whatever the dropped write managed to send of its own frame, the reply must be complete and first on the wire when the keep-alive is handed over
                if handed && (after.len() < 4 || after[..4] != ka[..]) { st.fail(format!("[{prop} tokio] a read() dropped after {taken} byte(s) of the reply, a write() dropped at its first poll, then read(): the keep-alive is handed over ({shown}) while the transport holds {} (before the last read: {})", hex(&after), hex(&before)), id); }
            },
        }
    } } }
}

// ---------------------------------------------------------------- C07
pub fn run_c07(a: &Args) {
    if let Some(r) = &a.replay { std::process::exit(replay_session("C07", r)); }
    let mut rng = Rng::new(a.seed);
    let mut st = Stats::default(); let mut out = Out::new(&a.out); let mut run = Runner::new();
    for compressed in [true, false] {
        // 1. all TINY sub-type bytes x all request ids, one frame per session (exhaustive)
        let mut all_tiny = vec![];
        for subt in 0..=255u8 { for reqi in 0..=255u8 { if subt < 32 || reqi % 16 == 0 { all_tiny.push(raw_frame(compressed, 3, reqi, &[subt])); } } }
        // sessions of 64 tiny frames each keep the run short while covering every value
        for chunk in all_tiny.chunks(64) {
            let fr = Frames::new(compressed, chunk.to_vec()); let idx = RepIndex::new(&fr);
            let evs = vec![REv::Data(fr.stream()), REv::Eof];
            run.session("C07", &fr, &idx, false, &evs, &mut st, &mut out, true);
        }
        st.exhaustive.push(format!("all 32 low TINY sub-type bytes x 256 request ids + every 16th reqi for sub-type bytes 32..255 ({} mode)", mode_tag(compressed)));
        // 2. every kind (default packet) in a session between two keep-alives
        let pool = frame_pool(&mut rng, compressed);
        let ka = raw_frame(compressed, 3, 0, &[0]);
        for f in &pool {
            let fr = Frames::new(compressed, vec![ka.clone(), f.clone(), ka.clone()]); let idx = RepIndex::new(&fr);
            let chunks = partition(&mut rng, &fr.stream(), 2);
            let evs: Vec<REv> = chunks.into_iter().map(REv::Data).chain([REv::Eof]).collect();
            run.session("C07", &fr, &idx, true, &evs, &mut st, &mut out, true);
        }
        // 3. exhaustive short histories over a 12-frame alphabet
        let alpha: Vec<Vec<u8>> = vec![
            ka.clone(), raw_frame(compressed, 3, 1, &[0]), raw_frame(compressed, 3, 0, &[3]), raw_frame(compressed, 3, 0, &[1]),
            raw_frame(compressed, 3, 255, &[0]), raw_frame(compressed, 4, 0, &[0, 0, 0, 0, 0]), raw_frame(compressed, 200, 0, &[0]),
            raw_frame(compressed, 3, 0, &[200]), raw_frame(compressed, 61, 0, &[0, 0, 0, 0, 0]), raw_frame(compressed, 0, 0, &[0]),
            raw_frame(compressed, 3, 0, &[0, 1, 2, 3, 4]), raw_frame(compressed, 2, 0, &[0]),
        ];
        let depth = if a.thorough() { 4 } else { 3 };
        let n = alpha.len();
        let total = n.pow(depth as u32);
        for code in 0..total {
            let mut c = code; let mut frames = vec![];
            for _ in 0..depth { frames.push(alpha[c % n].clone()); c /= n; }
            let fr = Frames::new(compressed, frames); let idx = RepIndex::new(&fr);
            let stream = fr.stream();
            if stream.len() < 2 { continue; }
            let cut = 1 + (code * 7) % (stream.len() - 1);
            let evs = vec![REv::Data(stream[..cut].to_vec()), REv::Data(stream[cut..].to_vec()), REv::Eof];
            run.session("C07", &fr, &idx, false, &evs, &mut st, &mut out, code % 3 == 0 || !a.thorough());
        }
        st.exhaustive.push(format!("all histories of length {depth} over a 12-frame alphabet (keep-alive, TINY_NONE reqi!=0, other TINY sub-types, other kinds, unknown, undecodable) ({} mode)", mode_tag(compressed)));
    }
    // 4. the write half is not ready / accepts the reply piecemeal (blocking: Interrupted; tokio: Pending): the whole reply must
    //    still be on the transport before its keep-alive is handed over (the model's write_all is not affected by readiness,
    //    so these sessions are compared with the same model lines)
    for compressed in [true, false] {
        let ka = raw_frame(compressed, 3, 0, &[0]);
        let other = raw_frame(compressed, 3, 7, &[4]);
        let patterns: Vec<Vec<WEv>> = vec![
            vec![WEv::Pending, WEv::Accept(9)], vec![WEv::Pending, WEv::Pending, WEv::Pending, WEv::Accept(9)],
            vec![WEv::Accept(0), WEv::Pending, WEv::Accept(9)], vec![WEv::Accept(1), WEv::Pending, WEv::Pending, WEv::Accept(0), WEv::Accept(0)],
            vec![WEv::Pending, WEv::Accept(0), WEv::Pending, WEv::Accept(0), WEv::Pending, WEv::Accept(0), WEv::Pending, WEv::Accept(0)],
            vec![WEv::Accept(2), WEv::Pending, WEv::Accept(0)],
        ];
        for (pi, pat) in patterns.iter().enumerate() {
            for frames in [vec![ka.clone(), other.clone()], vec![other.clone(), ka.clone(), ka.clone(), other.clone()], vec![ka.clone()]] {
                let fr = Frames::new(compressed, frames); let idx = RepIndex::new(&fr);
                let nka = fr.class.iter().filter(|c| **c == Class::Keep).count();
                let ws: Vec<WEv> = (0..nka).flat_map(|_| pat.clone()).collect();
                for split in [0usize, 1] {
                    let stream = fr.stream();
                    let evs: Vec<REv> = if split == 0 { vec![REv::Data(stream.clone()), REv::Eof] } else { stream.chunks(3).map(|c| REv::Data(c.to_vec())).chain([REv::Eof]).collect() };
                    run.session_ws("C07", &fr, &idx, false, &evs, &ws, &mut st, &mut out, true);
                    st.bump(&format!("write-half readiness pattern #{pi}"));
                }
            }
        }
    }
    reply_failure_cases("C07", &run.rt, &mut st, &mut out);
    abandoned_write_cases("C07", &run.rt, &mut st);
    // 4c. transient READ errors (would-block, interrupted, a read time-out) between and inside the frames of keep-alive-rich sessions: every
    //     keep-alive is still answered exactly once and nothing else is (whatever a failed read leaves in the receive buffer)
    for compressed in [true, false] {
        let ka = raw_frame(compressed, 3, 0, &[0]);
        for i in 0..(if a.thorough() { 400 } else { 60 }) {
            let n = rng.range(2, 30) as usize;
            let frames: Vec<Vec<u8>> = (0..n).map(|j| if (i + j) % 3 == 0 { raw_frame(compressed, 3, (j % 250) as u8 + 1, &[0]) } else { ka.clone() }).collect();
            let fr = Frames::new(compressed, frames); let idx = RepIndex::new(&fr);
            let style = rng.below(6); let chunks = partition(&mut rng, &fr.stream(), style);
            let rate = *rng.pick(&[20u64, 50]); let evs = with_errors(&mut rng, chunks, rate, true);
            run.session("C07", &fr, &idx, false, &evs, &mut st, &mut out, true);
            st.bump("keep-alive sessions with transient read errors");
        }
    }
    // direct check of maybe_pong on typed packets: every kind's default value
    for p in crate::gen::kinds::default_packets() {
        st.evaluations += 1;
        let is_ka = matches!(&p, Packet::Tiny(t) if t.reqi.0 == 0 && matches!(t.subt, insim::insim::TinyType::None));
        if p.maybe_pong().is_some() != is_ka { st.fail(format!("maybe_pong on {:?} is {:?}", p, p.maybe_pong().is_some()), format!("{:?}", p)); }
    }
    st.distinct_nontrivial = run.nontrivial.len() as u64;
    st.rule = "sessions on the real blocking and tokio Framed with the outgoing bytes captured per read(): every TINY (sub-type, reqi) value, every kind between two keep-alives, all short histories over a 12-frame alphabet; non-trivial = >= 2 frames and a read that is not frame-aligned".into();
    st.sample("session C 0 f:030000:K:0 f:030100:O:1 f:030003:O:2 | D01030000010301 D0001030003 Z -> W01030000 P0 P1 P2 DC".into());
    // keep-alives over the WebSocket transport with a peer that is slow to read: exactly one reply message per keep-alive, none else
    { let iort = tokio::runtime::Builder::new_multi_thread().worker_threads(2).enable_all().build().unwrap();
      for compressed in [true, false] {
        let n = if a.thorough() { 18_000 } else { 6_000 };
        let (sent, handed, replies, others) = crate::c20::ws_keepalive_case(&iort, compressed, n);
        st.evaluations += sent as u64;
        if handed != sent || replies != sent || others != 0 { st.fail(format!("[C07 websocket] {sent} keep-alives sent (among packets that are not keep-alives), {handed} handed to the caller, the peer received {replies} reply messages and {others} other messages"), format!("wska {} {n}", mode_tag(compressed))); }
        st.notes.push(format!("websocket keep-alive burst ({} mode): {sent} sent, {handed} handed over, {replies} replies seen by the peer", mode_tag(compressed)));
      } }
    { let iort = tokio::runtime::Builder::new_multi_thread().worker_threads(2).enable_all().build().unwrap();
      for compressed in [true, false] { for n in [1usize, 2] { st.evaluations += 1; st.bump("idle after reads (websocket)");
        let replies = crate::c20::ws_idle_after_reads_case(&iort, compressed, n);
        if replies != n { st.fail(format!("[C07 websocket] the caller read the {n} keep-alive(s) of one message and then stayed idle (connection open): the peer received {replies} of the {n} replies"), format!("wsidle {} {n}", mode_tag(compressed))); } } } }
    // ... and a lock-step WebSocket peer whose 148-byte messages keep straddling the end of the receive buffer (the adaptor hands out a message in two parts)
    { let iort = tokio::runtime::Builder::new_multi_thread().worker_threads(2).enable_all().build().unwrap();
      for compressed in [true, false] { let rounds = if a.thorough() { 1500 } else { 300 };
        let (sent, handed, replies, done) = crate::c20::ws_lockstep_case(&iort, compressed, rounds, None); st.evaluations += sent as u64;
        if done != rounds || handed != sent || replies != sent { st.fail(format!("[C07 websocket] lock-step peer: round {done} of {rounds} never completed: {sent} keep-alives sent in 37-frame messages, {handed} handed to the caller, {replies} replies received"), format!("wslock {} {rounds}", mode_tag(compressed))); }
        st.bump("lock-step websocket sessions"); } }
    { let c1 = crate::conv::sync_conversations("C07", a, &mut rng, "ka", &mut st, &mut out); let c2 = crate::conv::async_conversations("C07", a, &mut rng, &mut st, &mut out); st.distinct_nontrivial += (c1.distinct.len() + c2.distinct.len()) as u64; }
    crate::c08::keepalive_sessions("C07", a, &mut st);
    // connections made by the builder (whatever it wraps the socket in): the reply leaves although the caller never writes
    for udp in [false, true] { for blocking in [true, false] { for compressed in [true, false] { st.evaluations += 1; st.bump("builder-made connections answering a keep-alive");
        if let Some(w) = connect_keepalive(udp, blocking, compressed) { st.fail(format!("[C07 builder {} {}] {w}", if udp { "udp" } else { "tcp" }, if blocking { "blocking" } else { "tokio" }), format!("connka {} {} {}", udp as u8, blocking as u8, mode_tag(compressed))); } } } }
    { let iort = crate::c08::io_runtime();
      for compressed in [true, false] { for imp in ["B", "A"] { st.evaluations += 1; if let Some(w) = crate::c08::bounce_keepalive_case(imp, &iort, compressed) { st.fail(format!("[C07 udp {}] {w}", if imp == "B" { "blocking" } else { "tokio" }), format!("bounceka {imp} {}", mode_tag(compressed))); } st.bump("udp keep-alive reply meeting a bounced datagram"); } } }
    crate::net::report_unconsumed("C07", &mut st);
    out.finish(&st);
}

// ---------------------------------------------------------------- C09
pub fn run_c09(a: &Args) {
    if let Some(r) = &a.replay { std::process::exit(replay_session("C09", r)); }
    let mut rng = Rng::new(a.seed);
    let mut st = Stats::default(); let mut out = Out::new(&a.out); let mut run = Runner::new();
    for compressed in [true, false] {
        let ver = crate::gen::kinds::default_packets().into_iter().find(|p| matches!(p, Packet::Ver(_))).and_then(|p| encode(compressed, &p));
        let ver = match ver { Some(v) => v, None => { st.fail("cannot encode a default Ver packet".into(), "-".into()); continue; } };
        let mk = |v: u8| { let mut f = ver.clone(); let n = f.len(); f[n - 2] = v; f[4] = b'0'; f[5] = b'.'; f[6] = b'7'; f[7] = b'F'; f };
        let pool = frame_pool(&mut rng, compressed);
        // all 256 versions x {on, off}, alone and at 3 positions of a history
        for v in 0..=255u8 {
            for verify in [true, false] {
                let fr = Frames::new(compressed, vec![mk(v)]); let idx = RepIndex::new(&fr);
                if fr.class.first() != Some(&Class::Ver(v)) { st.fail(format!("a Ver frame with insimver {v} is classified {:?}", fr.class.first()), hex(&mk(v))); }
                let evs = vec![REv::Data(fr.stream()), REv::Eof];
                run.session("C09", &fr, &idx, verify, &evs, &mut st, &mut out, true);
                if v % 8 == 1 || a.thorough() {
                    for pos in 0..3 {
                        let mut frames: Vec<Vec<u8>> = (0..3).map(|_| rng.pick(&pool).clone()).collect();
                        frames.insert(pos, mk(v)); frames.push(mk(9)); frames.push(mk(v.wrapping_add(1)));
                        let fr = Frames::new(compressed, frames); let idx = RepIndex::new(&fr);
                        let chunks = partition(&mut rng, &fr.stream(), 2);
                        let evs: Vec<REv> = chunks.into_iter().map(REv::Data).chain([REv::Eof]).collect();
                        run.session("C09", &fr, &idx, verify, &evs, &mut st, &mut out, true);
                    }
                }
            }
        }
        // an IS_VER frame longer than its 20 bytes (trailing bytes inside the announced frame are ignored by the decoder): the gate decides
        // by the InSim version alone; frame lengths 24 .. 84 incl. the one whose compressed size byte is 20
        for extra in [4usize, 8, 56, 60, 64] { for v in [0u8, 8, 9, 10, 255] { for verify in [true, false] {
            let mut f = mk(v); f.extend(vec![0u8; extra]); f[0] = size_byte(compressed, f.len());
            if !compressed && f.len() > 255 { continue; }
            let fr = Frames::new(compressed, vec![f.clone(), mk(9)]); let idx = RepIndex::new(&fr);
            if fr.frames.len() != 2 { st.fail(format!("[C09] an IS_VER frame of {} bytes is not one complete frame for the decoder", f.len()), hex(&f)); continue; }
            if fr.class[0] != Class::Ver(v) && fr.class[0] != Class::Err { st.fail(format!("[C09] an IS_VER frame of {} bytes reporting InSim version {v} is classified {:?}", f.len(), fr.class[0]), hex(&f)); }
            let evs = vec![REv::Data(fr.stream()), REv::Eof];
            run.session("C09", &fr, &idx, verify, &evs, &mut st, &mut out, true);
            st.bump("over-long IS_VER frames");
        } } }
        // the spare byte behind InSimVer must not matter: all 256 versions x spare 1 / 9 / 128 / 255 x on / off
        for v in 0..=255u8 { for sp in [1u8, 9, 128, 255] { for verify in [true, false] {
            if v % 4 != sp % 4 && !a.thorough() && v != 9 && v != 8 { continue; }
            let mut f = mk(v); let n = f.len(); f[n - 1] = sp;
            let fr = Frames::new(compressed, vec![f.clone(), mk(9)]); let idx = RepIndex::new(&fr);
            if fr.frames.len() != 2 { st.fail(format!("[C09] an IS_VER frame with spare byte {sp} is not one complete frame for the decoder"), hex(&f)); continue; }
            let evs = vec![REv::Data(fr.stream()), REv::Eof];
            run.session("C09", &fr, &idx, verify, &evs, &mut st, &mut out, true);
            st.bump("IS_VER with a non-zero spare byte");
        } } }
        // the version text must not matter to the gate: every plain version text, up to the full 8 bytes of the field, x InSim versions 8 / 9 / 10
        for t in GOOD_VERSION_TEXTS.iter() { for v in [8u8, 9, 10] { for verify in [true, false] {
            let mut f = mk(v); for j in 0..8 { f[4 + j] = *t.as_bytes().get(j).unwrap_or(&0); }
            let fr = Frames::new(compressed, vec![f.clone(), mk(9)]); let idx = RepIndex::new(&fr);
            if fr.frames.len() != 2 { st.fail(format!("[C09] an IS_VER frame with version text {t:?} is not one complete frame for the decoder"), hex(&f)); continue; }
            let evs = vec![REv::Data(fr.stream()), REv::Eof];
            run.session("C09", &fr, &idx, verify, &evs, &mut st, &mut out, true);
            st.bump("version texts (incl. full-width)");
        } } }
        st.exhaustive.push(format!("all 256 InSim version values x verification on/off x both connections ({} mode)", mode_tag(compressed)));
        // every other kind is never rejected
        for f in &pool {
            let fr = Frames::new(compressed, vec![f.clone()]); if fr.frames.is_empty() { continue; }
            let idx = RepIndex::new(&fr);
            let evs = vec![REv::Data(fr.stream()), REv::Eof];
            run.session("C09", &fr, &idx, true, &evs, &mut st, &mut out, true);
        }
    }
    // the connections handed out by the builder's reachable connect paths carry the configured flag:
    // loopback TCP / UDP peers answer the handshake with a version-8 and a version-9 packet
    for udp in [false, true] { for blocking in [true, false] { for verify in [true, false] { for compressed in [true, false] {
        st.evaluations += 1;
        let id = format!("connect udp={udp} blocking={blocking} verify={verify} {}", mode_tag(compressed));
        let got = connect_gate(udp, blocking, verify, compressed);
        let want = if verify { vec!["BV8".to_string(), "V9".to_string()] } else { vec!["V8".to_string(), "V9".to_string()] };
        if got != want { st.fail(format!("[C09] a connection built with verify_version({verify}) over {} ({}) returned {:?} for version packets 8 then 9, want {:?}", if udp { "udp" } else { "tcp" }, if blocking { "connect_blocking" } else { "connect_async" }, got, want), id); }
        st.bump("connect paths exercised (tcp/udp x blocking/async x on/off x mode)");
    } } } }
    st.notes.push("the three relay arms of connect_blocking / connect_async dial isrelay.lfs.net and cannot run offline; reading builder.rs, the async relay arms (TCP and WebSocket) apply Builder::verify_version, the BLOCKING relay arm does not (observation, not claimed: it cannot be replayed here)".into());
    // typed: maybe_verify_version on every kind's default
    for p in crate::gen::kinds::default_packets() {
        st.evaluations += 1;
        let r = p.maybe_verify_version();
        let ok = match (&p, &r) { (Packet::Ver(v), Ok(true)) => v.insimver == 9, (Packet::Ver(v), Err(insim::Error::IncompatibleVersion(x))) => v.insimver != 9 && *x == v.insimver, (Packet::Ver(_), _) => false, (_, Ok(false)) => true, _ => false };
        if !ok { st.fail(format!("maybe_verify_version on {:?} gives {:?}", p, r), format!("{:?}", p)); }
    }
    st.distinct_nontrivial = run.sessions / 2;
    st.rule = "sessions on the real blocking and tokio Framed: Ver frames with every insimver 0..255, verification on and off, alone and inside histories of other kinds; every other kind with verification on; distinct sessions counted (each run on both connections)".into();
    st.sample("session U 1 f:<ver insimver=8>:V8:0 | D.. Z -> BV8 DC".into());
    { let c1 = crate::conv::sync_conversations("C09", a, &mut rng, "ver", &mut st, &mut out); st.distinct_nontrivial += c1.distinct.len() as u64; }
    // the gate over real UDP sockets: long sessions of large datagrams holding version packets (half of the sessions verify)
    crate::c08::keepalive_sessions("C09", a, &mut st);
    crate::net::report_unconsumed("C09", &mut st);
    out.finish(&st);
}

// ---------------------------------------------------------------- C06
fn wtag(w: &WEv) -> String { match w { WEv::Accept(k) => format!("a{k}"), WEv::Pending => "p".into(), WEv::Fail(k) => format!("f{k}") } }

fn write_case(rt: &tokio::runtime::Runtime, imp: &str, compressed: bool, packets: &[Packet], ws: &[WEv]) -> (Vec<u8>, String, Vec<u8>) {
    // returns (bytes on the transport, outcome, expected concatenation of the frames written successfully so far)
    let t = Transport::new(vec![], ws.to_vec());
    let mut want = vec![]; let mut outcome = "ok".to_string();
    if imp == "B" {
        let mut f = BFramed::new(Box::new(t.clone()), Codec::new(mode_of(compressed)));
        for p in packets {
            let fr = encode(compressed, p).unwrap();
            match guard(|| f.write(p.clone())) { Some(Ok(())) => want.extend(fr), Some(Err(_)) => { outcome = "err".into(); break; }, None => { outcome = "panic".into(); break; } }
        }
    } else {
        let mut f = AFramed::new(Box::new(t.clone()), Codec::new(mode_of(compressed)));
        for p in packets {
            let fr = encode(compressed, p).unwrap();
            match guard(|| rt.block_on(async { f.write(p.clone()).await })) { Some(Ok(())) => want.extend(fr), Some(Err(_)) => { outcome = "err".into(); break; }, None => { outcome = "panic".into(); break; } }
        }
    }
    (t.take_written(), outcome, want)
}

pub fn run_c06(a: &Args) {
    let mut rng = Rng::new(a.seed);
    let rt = runtime();
    let packets: Vec<Packet> = crate::gen::kinds::default_packets();
    if let Some(r) = &a.replay {
        // "<B|A> <C|U> <kind indices comma> | <wevs>"
        let toks: Vec<&str> = r.split_whitespace().collect();
        let ps: Vec<Packet> = toks[2].split(',').map(|i| packets[i.parse::<usize>().unwrap()].clone()).collect();
        let ws: Vec<WEv> = toks[4..].iter().map(|t| match &t[..1] { "a" => WEv::Accept(t[1..].parse().unwrap()), "p" => WEv::Pending, _ => WEv::Fail(t[1..].parse().unwrap()) }).collect();
        let (got, outcome, want) = write_case(&rt, toks[0], toks[1] == "C", &ps, &ws);
        if outcome == "ok" && got == want { println!("PASS {}", hex(&got)); std::process::exit(0) } else { println!("FAIL outcome {outcome}: transport received {} want {}", hex(&got), hex(&want)); std::process::exit(1) }
    }
    let mut st = Stats::default(); let mut out = Out::new(&a.out);
    let mut distinct = HashSet::new();
    for compressed in [true, false] {
        let enc: Vec<(usize, Vec<u8>)> = packets.iter().enumerate().filter_map(|(i, p)| encode(compressed, p).map(|f| (i, f))).collect();
        let mut one = |imp: &str, ks: &[usize], ws: &[WEv], st: &mut Stats, out: &mut Out, rt: &tokio::runtime::Runtime| {
            let ps: Vec<Packet> = ks.iter().map(|i| packets[*i].clone()).collect();
            let (got, outcome, want) = write_case(rt, imp, compressed, &ps, ws);
            st.evaluations += 1;
            let id = format!("{imp} {} {} | {}", mode_tag(compressed), ks.iter().map(|k| k.to_string()).collect::<Vec<_>>().join(","), ws.iter().map(wtag).collect::<Vec<_>>().join(" "));
            let has_fail = ws.iter().any(|w| matches!(w, WEv::Fail(_)));
            if !has_fail && (outcome != "ok" || got != want) { st.fail(format!("[C06 {}] outcome {outcome}; transport received {} bytes {} but the frames are {}", if imp == "B" { "blocking" } else { "tokio" }, got.len(), hex(&got[..got.len().min(40)]), hex(&want[..want.len().min(40)])), id.clone()); }
            if has_fail && !want.is_empty() && !got.starts_with(&want) { st.fail("bytes on the transport are not a prefix-extension of the completed frames".into(), id.clone()); }
            if ws.iter().any(|w| matches!(w, WEv::Accept(k) if *k < 3)) && distinct.insert(fnv(&id)) { st.distinct_nontrivial += 1; }
            st.bump(&format!("outcome:{outcome}"));
            // model: single-frame write_all on the first frame with the same script
            if ks.len() == 1 {
                let fr = encode(compressed, &ps[0]).unwrap();
                let model_line = format!("writeall {} {}", hex(&fr), ws.iter().map(wtag).collect::<Vec<_>>().join(" "));
                let imp_out = format!("{} {}", hex(&got), if outcome == "ok" { "ok".to_string() } else if let Some(WEv::Fail(k)) = ws.iter().find(|w| matches!(w, WEv::Fail(_))) { format!("err{k}") } else { outcome.clone() });
                out.case(&model_line, &imp_out);
            }
        };
        // 1. exhaustive acceptance patterns for the 4-byte and 8-byte frames: each call accepts 1..=len
        for (ki, f) in enc.iter().filter(|(_, f)| f.len() <= 8).take(4) {
            let n = f.len();
            // compositions of n = sequences of accepted sizes
            for mask in 0..(1u32 << (n - 1)) {
                let mut ws = vec![]; let mut run = 1;
                for i in 0..n - 1 { if (mask >> i) & 1 == 1 { ws.push(WEv::Accept(run - 1)); run = 1; } else { run += 1; } }
                ws.push(WEv::Accept(run - 1));
                for imp in ["B", "A"] {
                    one(imp, &[*ki], &ws, &mut st, &mut out, &rt);
                    // same pattern with a not-ready turn before every call
                    let wsp: Vec<WEv> = ws.iter().flat_map(|w| [WEv::Pending, w.clone()]).collect();
                    one(imp, &[*ki], &wsp, &mut st, &mut out, &rt);
                }
            }
        }
        st.exhaustive.push(format!("every acceptance pattern (compositions of the frame length) for frames <= 8 bytes, with and without not-ready turns ({} mode)", mode_tag(compressed)));
        // 2. every kind, one byte per call
        for (ki, _) in &enc { for imp in ["B", "A"] { let ws: Vec<WEv> = (0..1100).map(|_| WEv::Accept(0)).collect(); one(imp, &[*ki], &ws, &mut st, &mut out, &rt); } }
        // 3. random sequences, random patterns, Pending storms, occasional failure
        let nrand = if a.thorough() { 4000 } else { 400 };
        for _ in 0..nrand {
            let k = rng.range(1, 6) as usize;
            let ks: Vec<usize> = (0..k).map(|_| rng.pick(&enc).0).collect();
            let total: usize = ks.iter().map(|i| enc.iter().find(|e| e.0 == *i).unwrap().1.len()).sum();
            let mut ws = vec![]; let mut acc = 0;
            let fail_at = if rng.chance(1, 10) { Some(rng.below(total as u64) as usize) } else { None };
            while acc < total + 8 {
                if rng.chance(1, 3) { for _ in 0..rng.range(1, 5) { ws.push(WEv::Pending); } }
                if let Some(fa) = fail_at { if acc >= fa { ws.push(WEv::Fail(2 + rng.below(3) as u8)); break; } }
                let n = *rng.pick(&[0usize, 0, 1, 2, 3, 7, 50, 2000]); ws.push(WEv::Accept(n)); acc += n + 1;
            }
            for imp in ["B", "A"] { one(imp, &ks, &ws, &mut st, &mut out, &rt); }
        }
    }
    st.rule = "Framed::write on the real blocking and tokio connections over a scripted transport that accepts k bytes per call / reports not-ready (Interrupted for blocking, Pending for tokio) / fails: all acceptance patterns for short frames, every kind one byte per call, random sequences of 1..6 packets; non-trivial = a call accepting < 4 bytes occurs".into();
    st.sample("A C 2 | p a0 p a0 a1  -> transport receives 01030000".into());
    // the peer's end of stream concerns the READ half only (a TCP half-close): after read() has reported it, the caller's writes still reach the
    // transport whole - and no read() ever closes the write half
    for compressed in [true, false] { for imp in ["B", "A"] { for extra_reads in [1usize, 2] {
        st.evaluations += 1; st.bump("writes after the peer's end of stream");
        let ping = raw_frame(compressed, 3, 5, &[3]);
        let t = Transport::new(vec![REv::Data(ping.clone()), REv::Eof, REv::Eof, REv::Eof], vec![]);
        let p = Packet::Tiny(insim::insim::Tiny { reqi: insim::identifiers::RequestId(9), subt: insim::insim::TinyType::Ping });
        let want = encode(compressed, &p).unwrap_or_default();
        let id = format!("eofwrite {imp} {} {extra_reads}", mode_tag(compressed));
        let res: Option<(Vec<String>, bool)> = if imp == "B" {
            let mut f = BFramed::new(Box::new(t.clone()), Codec::new(mode_of(compressed)));
            guard(|| { let mut r = vec![]; for _ in 0..1 + extra_reads { r.push(match f.read() { Ok(_) => "P".to_string(), Err(e) => err_token(&e).0 }); } let _ = t.take_written(); let ok = f.write(p.clone()).is_ok(); (r, ok) })
        } else {
            let mut f = AFramed::new(Box::new(t.clone()), Codec::new(mode_of(compressed)));
            guard(|| rt.block_on(async { let mut r = vec![]; for _ in 0..1 + extra_reads { r.push(match f.read().await { Ok(_) => "P".to_string(), Err(e) => err_token(&e).0 }); } let _ = t.take_written(); let ok = f.write(p.clone()).await.is_ok(); (r, ok) }))
        };
        let shut = t.0.lock().unwrap().shut; let w = t.take_written();
        match res {
            None => st.fail(format!("[C06 {imp}] panic around the end of the stream"), id),
            Some((r, ok)) => if shut || !ok || w != want { st.fail(format!("[C06 {}] after the reads {:?} (the peer closed its sending side) a write {} and the transport received {} instead of the frame {}{}", if imp == "B" { "blocking" } else { "tokio" }, r, if ok { "succeeded" } else { "FAILED" }, hex(&w), hex(&want), if shut { "; the connection shut the write half down itself" } else { "" }), id); },
        }
    } } }
    reply_failure_cases("C06", &rt, &mut st, &mut out);
    // UDP as the transport: a frame handed to write reaches the socket complete and contiguous, i.e. as ONE datagram, at every frame size
    { let iort = crate::c08::io_runtime();
      for compressed in [true, false] { for imp in ["B", "A"] { let (n, w) = crate::c08::all_sizes_written(imp, &iort, compressed); st.evaluations += n as u64; if let Some(w) = w { st.fail(format!("[C06 udp {}] {w}", if imp == "B" { "blocking" } else { "tokio" }), format!("udpsizes {imp} {}", mode_tag(compressed))); } st.add("udp writes of every frame size", n as u64); } } }
    // UDP as the transport: writes around a bounced datagram (a write must not report success for a datagram the kernel refused)
    { let iort = crate::c08::io_runtime();
      for compressed in [true, false] { for imp in ["B", "A"] { st.evaluations += 1; if let Some(w) = crate::c08::bounce_case(imp, &iort, compressed) { st.fail(format!("[C06 udp {}] {w}", if imp == "B" { "blocking" } else { "tokio" }), format!("bounce {imp} {}", mode_tag(compressed))); } st.bump("udp writes around a bounced datagram"); } } }
    // the WebSocket adaptor as the transport, under back-pressure (real loopback sockets with small buffers, a peer that is slow to read)
    { let iort = tokio::runtime::Builder::new_multi_thread().worker_threads(2).enable_all().build().unwrap();
      for compressed in [true, false] {
        let n = if a.thorough() { 20_000 } else { 5_000 };
        let (got, want, waited) = crate::c20::backpressure_case(&iort, compressed, n);
        st.evaluations += want.len() as u64;
        let m = got.len().min(want.len());
        if let Some(pos) = (0..m).find(|i| got[*i] != want[*i]) { st.fail(format!("[C06 websocket] under back-pressure ({waited} writes had to wait) the peer's message #{pos} is {} but the frame of write #{pos} is {}", hex(&got[pos]), hex(&want[pos])), format!("backpressure {} {n}", mode_tag(compressed))); }
        else if got.len() > want.len() { st.fail(format!("[C06 websocket] the peer saw {} messages for {} writes", got.len(), want.len()), format!("backpressure {} {n}", mode_tag(compressed))); }
        st.notes.push(format!("websocket back-pressure run ({} mode): {} writes, {} waited, {} messages compared", mode_tag(compressed), want.len(), waited, m));
      } }
    { let mut r2 = Rng::new(a.seed ^ 0xC06); let c1 = crate::conv::sync_conversations("C06", a, &mut r2, "ka", &mut st, &mut out); let c2 = crate::conv::async_conversations("C06", a, &mut r2, &mut st, &mut out); st.distinct_nontrivial += (c1.distinct.len() + c2.distinct.len()) as u64; }
    crate::net::report_unconsumed("C06", &mut st);
    out.finish(&st);
}


/// connect through the real builder to a loopback peer that answers the ISI with a keep-alive and one more packet; the caller only reads.
/// Returns None when the caller got both packets and the peer received exactly one TINY_NONE reply and nothing else, Some(description) otherwise.
fn connect_keepalive(udp: bool, blocking: bool, compressed: bool) -> Option<String> {
    use std::{io::{Read, Write}, net::{TcpListener, UdpSocket}, time::Duration};
    let ka = raw_frame(compressed, 3, 0, &[0]); let ping = raw_frame(compressed, 3, 5, &[3]);
    let tok = |r: Result<Packet, insim::Error>| match r { Ok(p) => if p.maybe_pong().is_some() { "KA".to_string() } else { format!("{:?}", p).chars().take(12).collect() }, Err(e) => format!("ERR {:?}", e).chars().take(30).collect() };
    let rt = tokio::runtime::Builder::new_current_thread().enable_all().build().unwrap();
    let (ka2, ping2) = (ka.clone(), ping.clone());
    let r = guard(move || {
        let mut b = insim::builder::Builder::new();
        b = if compressed { b.compressed() } else { b.uncompressed() };
        if udp {
            let server = UdpSocket::bind("127.0.0.1:0").unwrap(); server.set_read_timeout(Some(Duration::from_millis(700))).unwrap();
            let saddr = server.local_addr().unwrap();
            let h = std::thread::spawn(move || { let mut buf = [0u8; 2048]; let mut got: Vec<Vec<u8>> = vec![]; if let Ok((_, from)) = server.recv_from(&mut buf) { let mut dg = ka2.clone(); dg.extend_from_slice(&ping2); let _ = server.send_to(&dg, from); while let Ok((n, _)) = server.recv_from(&mut buf) { got.push(buf[..n].to_vec()); } } got });
            let bb = b.udp(saddr, None);
            let out = if blocking { match bb.connect_blocking() { Ok(mut c) => { let o = vec![tok(c.read()), tok(c.read())]; std::thread::sleep(Duration::from_millis(300)); o }, Err(e) => vec![format!("connect {:?}", e)] } }
                      else { rt.block_on(async { match bb.connect_async().await { Ok(mut c) => { let o = vec![tok(c.read().await), tok(c.read().await)]; tokio::time::sleep(Duration::from_millis(300)).await; o }, Err(e) => vec![format!("connect {:?}", e)] } }) };
            (out, h.join().unwrap_or_default().concat())
        } else {
            let l = TcpListener::bind("127.0.0.1:0").unwrap(); let addr = l.local_addr().unwrap();
            let h = std::thread::spawn(move || { let mut got = vec![]; if let Ok((mut s, _)) = l.accept() { let _ = s.set_read_timeout(Some(Duration::from_millis(700))); let mut buf = [0u8; 44]; let _ = s.read_exact(&mut buf); let _ = s.write_all(&ka2); let _ = s.write_all(&ping2); let mut rb = [0u8; 256]; while let Ok(n) = s.read(&mut rb) { if n == 0 { break; } got.extend_from_slice(&rb[..n]); } } got });
            let bb = b.tcp(addr);
            // the caller keeps the connection open (and silent) while the peer waits for its reply
            let out = if blocking { match bb.connect_blocking() { Ok(mut c) => { let o = vec![tok(c.read()), tok(c.read())]; std::thread::sleep(Duration::from_millis(900)); o }, Err(e) => vec![format!("connect {:?}", e)] } }
                      else { rt.block_on(async { match bb.connect_async().await { Ok(mut c) => { let o = vec![tok(c.read().await), tok(c.read().await)]; tokio::time::sleep(Duration::from_millis(900)).await; o }, Err(e) => vec![format!("connect {:?}", e)] } }) };
            (out, h.join().unwrap_or_default())
        }
    });
    match r {
        None => Some("panic".into()),
        Some((out, got)) => if out.len() == 2 && out[0] == "KA" && !out[1].starts_with("ERR") && got == ka { None } else { Some(format!("the caller's two reads gave {:?}; while it stayed silent the peer received {} instead of the one reply {}", out, hex(&got), hex(&ka))) },
    }
}

/// connect through the real builder to a loopback peer that answers the ISI with VER(8) and VER(9); returns what two reads give
fn connect_gate(udp: bool, blocking: bool, verify: bool, compressed: bool) -> Vec<String> {
    use std::{io::{Read, Write}, net::{TcpListener, UdpSocket}, time::Duration};
    let ver = crate::gen::kinds::default_packets().into_iter().find(|p| matches!(p, Packet::Ver(_))).and_then(|p| encode(compressed, &p)).unwrap_or_default();
    if ver.is_empty() { return vec!["no-ver-frame".into()]; }
    let mk = |v: u8| { let mut f = ver.clone(); let n = f.len(); f[n - 2] = v; f[4] = b'0'; f[5] = b'.'; f[6] = b'7'; f[7] = b'F'; f };
    let (v8, v9) = (mk(8), mk(9));
    let tok = |r: Result<Packet, insim::Error>| match r { Ok(Packet::Ver(v)) => format!("V{}", v.insimver), Ok(p) => format!("P?{:?}", p).chars().take(20).collect(), Err(insim::Error::IncompatibleVersion(v)) => format!("BV{v}"), Err(e) => format!("ERR {:?}", e).chars().take(40).collect() };
    let rt = tokio::runtime::Builder::new_current_thread().enable_all().build().unwrap();
    let r = guard(|| {
        let mut b = insim::builder::Builder::new().verify_version(verify);
        b = if compressed { b.compressed() } else { b.uncompressed() };
        if udp {
            let server = UdpSocket::bind("127.0.0.1:0").unwrap(); server.set_read_timeout(Some(Duration::from_millis(2000))).unwrap();
            let saddr = server.local_addr().unwrap();
            let h = std::thread::spawn(move || { let mut buf = [0u8; 2048]; if let Ok((_, from)) = server.recv_from(&mut buf) { let _ = server.send_to(&v8, from); let _ = server.send_to(&v9, from); } });
            let bb = b.udp(saddr, None);
            let out = if blocking { match bb.connect_blocking() { Ok(mut c) => vec![tok(c.read()), tok(c.read())], Err(e) => vec![format!("connect {:?}", e)] } }
                      else { rt.block_on(async { match bb.connect_async().await { Ok(mut c) => vec![tok(c.read().await), tok(c.read().await)], Err(e) => vec![format!("connect {:?}", e)] } }) };
            let _ = h.join(); out
        } else {
            let l = TcpListener::bind("127.0.0.1:0").unwrap(); let addr = l.local_addr().unwrap();
            let h = std::thread::spawn(move || { if let Ok((mut s, _)) = l.accept() { let _ = s.set_read_timeout(Some(Duration::from_millis(2000))); let mut buf = [0u8; 44]; let _ = s.read_exact(&mut buf); let _ = s.write_all(&v8); let _ = s.write_all(&v9); std::thread::sleep(Duration::from_millis(300)); } });
            let bb = b.tcp(addr);
            let out = if blocking { match bb.connect_blocking() { Ok(mut c) => vec![tok(c.read()), tok(c.read())], Err(e) => vec![format!("connect {:?}", e)] } }
                      else { rt.block_on(async { match bb.connect_async().await { Ok(mut c) => vec![tok(c.read().await), tok(c.read().await)], Err(e) => vec![format!("connect {:?}", e)] } }) };
            let _ = h.join(); out
        }
    });
    r.unwrap_or(vec!["PANIC".into()])
}
