(* Spec/ConformProofs.v — what conformance of a layout means for EVERY value (T5): each field of the fixed
   part is found in the encoded frame at the byte offset given by the widths of the fields before it, in
   the little-endian / text / zero representation of its atom, and bytes 0, 1, 2 of the frame are the size,
   the packet type and the request id.  Axiom-free. *)
Require Import Coq.Strings.String.
Require Import Base.Bytes Wire.Layout Wire.LayoutProofs Wire.Customs Wire.CustomProofs Gen.Packets Net.Frame Wire.Packet.
Require Import Lia.
Local Open Scope N_scope.

Fixpoint offset_of (fs : list (string * atom)) (i : nat) : nat :=
  match i, fs with
  | S k, (_, a) :: t => (awidth cwidth a + offset_of t k)%nat
  | _, _ => 0%nat
  end.

Lemma enc_atom_len' cnt a v b : enc_atom cenc cnt a v = Ok b -> length b = awidth cwidth a.
Proof.
  destruct a; destruct v; cbn [Layout.enc_atom Layout.awidth]; try discriminate;
    try (intros H; eapply cenc_len; exact H).
  - destruct (negb _); [discriminate|]. destruct max as [m|]; [destruct (m <? n)|]; try discriminate;
      intros [= <-]; apply le_enc_len.
  - intros [= <-]. apply repeat_length.
  - destruct (existsb _ _); [|discriminate]. intros [= <-]. reflexivity.
  - destruct (n <? pow256 w); [|discriminate]. intros [= <-]. apply le_enc_len.
  - destruct (n <? 2); [|discriminate]. intros [= <-]. reflexivity.
  - intros [= <-]. reflexivity.
  - destruct cap as [c|]; [destruct (c <? cnt)|]; try discriminate; intros [= <-]; apply le_enc_len.
  - intros [= <-]. apply write_text_len.
  - destruct (_ <? _); [|discriminate]. intros [= <-]. apply le_enc_len.
Qed.

(* the i-th field occupies [offset, offset + width) of the encoding of the fixed part *)
Theorem enc_fixed_slice cnt fs : forall vs b i n a v,
  enc_fixed cenc cnt fs vs = Ok b -> nth_error fs i = Some (n, a) -> nth_error vs i = Some v ->
  exists bi, enc_atom cenc cnt a v = Ok bi /\ firstn (awidth cwidth a) (skipn (offset_of fs i) b) = bi.
Proof.
  induction fs as [|[n0 a0] fs IH]; intros vs b i n a v He Hf Hv.
  - destruct i; discriminate.
  - destruct vs as [|v0 vs]; [destruct i; discriminate|].
    cbn [Layout.enc_fixed] in He.
    destruct (enc_atom cenc cnt a0 v0) as [b1| |] eqn:E1; try discriminate.
    destruct (enc_fixed cenc cnt fs vs) as [b2| |] eqn:E2; try discriminate.
    inversion He; subst b. pose proof (enc_atom_len' _ _ _ _ E1) as Hl.
    destruct i as [|k].
    + cbn in Hf, Hv. inversion Hf; inversion Hv; subst. exists b1. split; [exact E1|].
      cbn [offset_of skipn]. rewrite <- Hl. rewrite firstn_app, Nat.sub_diag, firstn_all. cbn [firstn]. apply app_nil_r.
    + cbn [nth_error] in Hf, Hv. destruct (IH vs b2 k n a v E2 Hf Hv) as [bi [Hb Hs]].
      exists bi. split; [exact Hb|]. cbn [offset_of]. rewrite <- Hl.
      rewrite skipn_app. rewrite (skipn_all2 b1) by lia. cbn [app].
      replace (length b1 + offset_of fs k - length b1)%nat with (offset_of fs k) by lia. exact Hs.
Qed.

(* the representation of each kind of atom *)
Theorem enc_atom_repr cnt a v bi : enc_atom cenc cnt a v = Ok bi ->
  match a, v with
  | ANum w _, VN n => bi = le_enc w n /\ n < pow256 w       (* little-endian, w bytes *)
  | APad k, _ => bi = repeat 0 k                            (* spare bytes are zero *)
  | AEnum vals, VN n => bi = [n] /\ In n vals               (* one byte, a listed enumerant *)
  | AFlags w _, VN n => bi = le_enc w n /\ n < pow256 w
  | ABool, VN n => bi = [n] /\ n < 2
  | AChar8, VN n => bi = [n mod 256]
  | ACount w _, _ => bi = le_enc w (cnt mod pow256 w)
  | AText k z, VB bs => bi = write_text k z bs /\ length bi = k
  | ADur w scale, VN ms => bi = le_enc w (ms / scale) /\ ms / scale < pow256 w
  | _, _ => True
  end.
Proof.
  destruct a; destruct v; cbn [Layout.enc_atom]; try discriminate; auto;
    repeat match goal with
    | |- (if ?c then _ else _) = _ -> _ => let E := fresh "E" in destruct c eqn:E; try discriminate
    | |- match ?c with Some _ => _ | None => _ end = _ -> _ => destruct c
    end; intros [= <-]; repeat split; auto;
    try (apply N.ltb_lt; assumption); try (apply N.ltb_lt; apply Bool.negb_false_iff; assumption); try apply write_text_len.
  match goal with H : existsb _ _ = true |- _ => apply existsb_exists in H as [x [Hx Hq]]; apply N.eqb_eq in Hq; subst; exact Hx end.
Qed.

(* byte k of a little-endian number is digit k in base 256: least significant byte first *)
Theorem le_enc_nth w : forall n k, (k < w)%nat -> nth k (le_enc w n) 0 = (n / 256 ^ N.of_nat k) mod 256.
Proof.
  induction w as [|w IH]; intros n k Hk; [lia|]. cbn [le_enc]. destruct k as [|k].
  - cbn [nth]. rewrite N.pow_0_r, N.div_1_r. reflexivity.
  - cbn [nth]. rewrite IH by lia. rewrite Nat2N.inj_succ, N.pow_succ_r by lia. rewrite N.div_div by (try lia; apply N.pow_nonzero; lia). reflexivity.
Qed.

(* whole frame: size byte, type byte, then the struct; so field i sits at absolute offset 2 + offset_of *)
Theorem frame_header_and_fields m ty vs tv fr l :
  find_kind ty packet_table = Some (KLayout l) ->
  frame_encode m (PV ty vs tv) = Ok fr ->
  exists size body, fr = size :: ty :: body /\
    encode_length m (length fr) = Ok size /\
    forall i n a v, nth_error (fixed l) i = Some (n, a) -> nth_error vs i = Some v ->
      exists bi, enc_atom cenc (tail_count tv) a v = Ok bi /\
                 firstn (awidth cwidth a) (skipn (2 + offset_of (fixed l) i) fr) = bi.
Proof.
  intros Hk He. unfold frame_encode, encode, unparse in He. rewrite Hk in He. unfold enc_l in He.
  destruct (enc_struct cenc l vs tv) as [b| |] eqn:Es; try discriminate.
  destruct (encode_length m (S (length (ty :: b)))) as [sz| |] eqn:El; try discriminate.
  inversion He; subst fr. exists sz, b. split; [reflexivity|]. split; [exact El|].
  intros i n a v Hf Hv. unfold enc_struct in Es.
  destruct (enc_fixed cenc (tail_count tv) (fixed l) vs) as [b1| |] eqn:E1; try discriminate.
  destruct (enc_tail cenc (ltail l) tv) as [b2| |] eqn:E2; try discriminate.
  inversion Es; subst b.
  destruct (enc_fixed_slice _ _ _ _ _ _ _ _ E1 Hf Hv) as [bi [Hb Hs]].
  exists bi. split; [exact Hb|]. cbn [Nat.add skipn]. rewrite <- Hs.
  pose proof (enc_atom_len' _ _ _ _ Hb) as Hl.
  (* the slice lies inside b1 *)
  assert (Hin : (offset_of (fixed l) i + awidth cwidth a <= length b1)%nat).
  { clear -E1 Hf Hv. revert vs b1 i E1 Hf Hv. induction (fixed l) as [|[n0 a0] fs IH]; intros vs b1 i E1 Hf Hv; [destruct i; discriminate|].
    destruct vs as [|v0 vs]; [destruct i; discriminate|]. cbn [Layout.enc_fixed] in E1.
    destruct (enc_atom cenc (tail_count tv) a0 v0) as [c1| |] eqn:Ea; try discriminate.
    destruct (enc_fixed cenc (tail_count tv) fs vs) as [c2| |] eqn:Ef; try discriminate.
    inversion E1; subst b1. rewrite app_length. pose proof (enc_atom_len' _ _ _ _ Ea) as Hl. destruct i as [|k].
    - cbn in Hf. inversion Hf; subst. cbn [offset_of]. lia.
    - cbn [nth_error] in Hf, Hv. specialize (IH vs c2 k Ef Hf Hv). cbn [offset_of]. lia. }
  rewrite skipn_app. rewrite firstn_app.
  replace (awidth cwidth a - length (skipn (offset_of (fixed l) i) b1))%nat with 0%nat by (rewrite skipn_length; lia).
  cbn [firstn]. rewrite app_nil_r. reflexivity.
Qed.

(* bytes 1 and 2: type number and request id (the first declared field of every kind is reqi, one byte) *)
Definition reqi_first (k : pkind) : bool :=
  match k with
  | KLayout l => match fixed l with (n, ANum 1 None) :: _ => String.eqb n "reqi" | _ => false end
  | KMso => true
  end.
Lemma all_reqi_first : forallb (fun e => reqi_first (snd e)) packet_table = true.
Proof. vm_compute. reflexivity. Qed.
