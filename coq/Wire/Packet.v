(* Wire/Packet.v — the Packet enum codec: dispatch on the magic (type) byte over the generated
   table, the declarative kinds through the layout DSL, Mso through its hand model; composed with
   Net/Frame.v into the whole-frame encoder / decoder (Codec).  No proofs here. *)
Require Import Coq.Strings.String.
Require Import Base.Bytes Wire.Layout Wire.Customs Gen.Packets Net.Frame.
Local Open Scope N_scope.

Inductive pval := PV (magic : N) (vs : list value) (tv : tvalue).

Fixpoint find_kind (magic : N) (tab : list (N * string * pkind)) : option pkind :=
  match tab with
  | [] => None
  | (m, _, k) :: t => if m =? magic then Some k else find_kind magic t
  end.

Definition enc_l := enc_struct cenc.
Definition dec_l := dec_struct cwidth cdec.

(* ---- Mso (mso.rs), at the byte level: reqi, spare, ucid, plid, usertype, textstart, text.
   Values: [reqi; _; ucid; plid; usertype; VB name] with tail TVText msg, name/msg being the
   NUL-stripped byte strings before / after textstart. *)
Definition mso_usertypes : list N := [0; 1; 2; 3].
Definition mso_dec (bs : list N) : res (list value * tvalue * list N) :=
  match bs with
  | reqi :: _ :: ucid :: plid :: ut :: ts :: rest =>
      if negb (existsb (N.eqb ut) mso_usertypes) then Err
      else if ts =? 0 then
             Ok ([VN reqi; VU; VN ucid; VN plid; VN ut; VB []], TVText (strip_nul rest), [])
           else match take (N.to_nat ts) rest with
                | None => Err
                | Some (name, msg) =>
                    Ok ([VN reqi; VU; VN ucid; VN plid; VN ut; VB (strip_nul name)], TVText (strip_nul msg), [])
                end
  | _ => Err
  end.
Definition mso_enc (vs : list value) (tv : tvalue) : res (list N) :=
  match vs, tv with
  | [VN reqi; VU; VN ucid; VN plid; VN ut; VB name], TVText msg =>
      if (reqi <? 256) && (ucid <? 256) && (plid <? 256) && existsb (N.eqb ut) mso_usertypes then
        Ok ([reqi; 0; ucid; plid; ut; N.of_nat (length name) mod 256] ++ write_aligned 128 4 (name ++ msg))
      else Panic
  | _, _ => Panic
  end.

(* Packet::read on a frame body (type byte first) *)
Definition parse (body : list N) : res pval :=
  match body with
  | [] => Err
  | ty :: rest =>
      match find_kind ty packet_table with
      | None => Err
      | Some (KLayout l) =>
          match dec_l l rest with
          | Ok (vs, tv, _) => Ok (PV ty vs tv) | Err => Err | Panic => Panic end
      | Some KMso =>
          match mso_dec rest with
          | Ok (vs, tv, _) => Ok (PV ty vs tv) | Err => Err | Panic => Panic end
      end
  end.

(* Packet::write *)
Definition unparse (p : pval) : res (list N) :=
  let '(PV ty vs tv) := p in
  match find_kind ty packet_table with
  | None => Panic
  | Some (KLayout l) =>
      match enc_l l vs tv with Ok b => Ok (ty :: b) | Err => Err | Panic => Panic end
  | Some KMso =>
      match mso_enc vs tv with Ok b => Ok (ty :: b) | Err => Err | Panic => Panic end
  end.

Definition frame_decode := decode pval parse.
Definition frame_encode := encode pval unparse.

(* maybe_pong / maybe_verify_version on model packets *)
Definition tiny_magic : N := 3.
Definition ver_magic : N := 2.
Definition p_is_keepalive (p : pval) : bool :=
  match p with
  | PV 3 [VN 0; VN 0] TVNone => true       (* Tiny { reqi: 0, subt: None = 0 } *)
  | _ => false
  end.
Definition p_ver_of (p : pval) : option N :=
  match p with
  | PV 2 vs _ => match nth_error vs 4 with Some (VN v) => Some v | _ => None end  (* Ver.insimver *)
  | _ => None
  end.

(* decode a frame, re-encode the result: the observable used by the correspondence runs *)
Definition reencode (m : mode) (frame : list N) : res (list N) :=
  match frame with
  | [] => Err
  | _ :: body => match parse body with
                 | Ok p => frame_encode m p
                 | Err => Err
                 | Panic => Panic
                 end
  end.
