(* Extraction of the executable models. ExtrOcamlBasic only: bool, option, unit, list, prod,
   sumbool, sumor map to OCaml's; N / positive / nat / Z stay Coq inductives. *)
Require Import ExtrOcamlBasic.
Require Import Base.Bytes Core.VehicleDefs Core.Vehicle Core.GameVersion.
Extraction Language OCaml.
Definition x_gv := GameVersion.parse.
Definition x_vcmp := vcmp.
Definition x_veq := veq.
Extraction "model.ml" vehicle_read vehicle_write vehicle_display spec_read is_mod is_builtin x_gv x_vcmp x_veq.
