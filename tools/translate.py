#!/usr/bin/env python3
"""translate.py --repo /repo --out coq/Gen [--only a,b]
Regenerates the Coq tables/layouts from the Rust sources. Fail-closed: any construct outside the
grammar raises TranslateError; the failing generator is reported (status not ok,
a *.FAILED marker) and its outputs are replaced by the committed baseline (the translation of the last source that could be
translated), which serves the search for a failing input only - a run with a refusal never passes."""
import sys, os, json, argparse, importlib, traceback
sys.path.insert(0, os.path.dirname(os.path.abspath(__file__)))
from rustparse import TranslateError

GENERATORS = {
    'vehicle': ('gen_vehicle', ['VehicleTab.v']),
    'consts': ('gen_consts', ['NetConsts.v']),
    'track': ('gen_track', ['TrackTab.v']),
    'packets': ('gen_packets', ['Packets.v']),
    'text': ('gen_text', ['TextTab.v']),
    'builder': ('gen_builder', ['BuilderTab.v']),
    'files': ('gen_files', ['FilesTab.v']),
    'racelaps': ('gen_racelaps', ['RaceLapsTab.v']),
}

def write_if_changed(path, text):
    if os.path.exists(path) and open(path, encoding='utf-8').read() == text:
        return False
    with open(path, 'w', encoding='utf-8') as f:
        f.write(text)
    return True

def main():
    ap = argparse.ArgumentParser()
    ap.add_argument('--repo', default='/repo')
    ap.add_argument('--out', required=True)
    ap.add_argument('--only', default='')
    ap.add_argument('--harness-gen', default=None)
    a = ap.parse_args()
    names = [n for n in a.only.split(',') if n] or list(GENERATORS)
    os.makedirs(a.out, exist_ok=True)
    status = {}
    for n in names:
        modname, outs = GENERATORS[n]
        marker = os.path.join(a.out, n + '.FAILED')
        try:
            mod = importlib.import_module(modname)
            files, info = mod.generate(a.repo)
            changed = []
            for fn, text in files.items():
                if write_if_changed(os.path.join(a.out, fn), text): changed.append(fn)
            hfiles = info.pop('_harness', {}) if isinstance(info, dict) else {}
            if a.harness_gen:
                os.makedirs(a.harness_gen, exist_ok=True)
                for fn, text in hfiles.items():
                    if write_if_changed(os.path.join(a.harness_gen, fn), text): changed.append('harness:' + fn)
            if os.path.exists(marker): os.remove(marker)
            status[n] = {'ok': True, 'changed': changed, 'info': info}
        except (TranslateError, Exception) as e:
            for fn in outs:
                for ext in ('', 'o', 'ok', 'os'):
                    p = os.path.join(a.out, fn + ext)
                    if os.path.exists(p): os.remove(p)
            # the refusal is the verdict of this run (status not ok -> the check reports a violation).  So that the SEARCH FOR A FAILING
            # INPUT can still run, the outputs of the last source that could be translated (baseline/, committed, made by mkbaseline.py)
            # take the place of the missing ones: the model and the harness build, and the differential run shows where the changed
            # source and that model part ways.
            used = []
            base = os.path.join(os.path.dirname(os.path.dirname(os.path.abspath(__file__))), 'baseline')
            try:
                man = json.load(open(os.path.join(base, 'manifest.json')))['generators'].get(n, {})
                for fn in man.get('coq', []):
                    write_if_changed(os.path.join(a.out, fn), open(os.path.join(base, 'coq', fn), encoding='utf-8').read()); used.append(fn)
                if a.harness_gen:
                    os.makedirs(a.harness_gen, exist_ok=True)
                    for fn in man.get('harness', []):
                        write_if_changed(os.path.join(a.harness_gen, fn), open(os.path.join(base, 'harness', fn), encoding='utf-8').read()); used.append('harness:' + fn)
            except Exception:
                pass
            with open(marker, 'w') as f: f.write(repr(e) + '\n' + traceback.format_exc())
            status[n] = {'ok': False, 'error': repr(e), 'baseline_used': used}
    print(json.dumps(status))
    sys.exit(0 if all(s['ok'] for s in status.values()) else 3)

if __name__ == '__main__':
    main()
