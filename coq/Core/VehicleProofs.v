(* Core/VehicleProofs.v — lemmas about the vehicle model. Finite facts about the generated
   tables are closed by vm_compute (one entry per built-in car); everything about the 2^32
   wire values is by case analysis and little-endian arithmetic, not enumeration. *)
Require Import Base.Bytes Core.VehicleDefs Gen.VehicleTab Core.Vehicle.
Local Open Scope N_scope.

(* ---- finite facts about the generated tables ---- *)
Lemma arms_canonical : vehicle_read_arms = canon_arms vehicle_display_tab.
Proof. vm_compute. reflexivity. Qed.
Lemma tab_ok : forallb tab_entry_ok vehicle_display_tab = true.
Proof. vm_compute. reflexivity. Qed.
Lemma tab_nodup : nodup_keys vehicle_display_tab = true.
Proof. vm_compute. reflexivity. Qed.
Lemma write_unknown_zeros : vehicle_write_unknown = zeros4.
Proof. vm_compute. reflexivity. Qed.
Lemma cars_same : same_car_set = true.
Proof. vm_compute. reflexivity. Qed.

(* ---- the match over canonical arms computes the rule ---- *)
Lemma first_match_tail tab bs sh :
  first_match (map (fun '(i, nm) => (Some (nm ++ [0]), Some true, OBuiltin i)) tab
               ++ [(None, Some true, OErr); (None, Some false, OMod)]) bs sh
  = Some (if sh then match find_name bs tab with Some i => OBuiltin i | None => OErr end else OMod).
Proof.
  induction tab as [|[i nm] tab IH].
  - destruct sh; reflexivity.
  - cbn [map]. rewrite <- app_comm_cons. cbn [first_match arm_matches find_name snd].
    destruct sh; cbn [Bool.eqb].
    + destruct (list_eqb (nm ++ [0]) bs); cbn [andb]; [reflexivity|]. exact IH.
    + rewrite andb_false_r. exact IH.
Qed.

Lemma first_match_canon tab bs :
  first_match (canon_arms tab) bs (builtin_shape bs) =
  Some (if list_eqb zeros4 bs then OUnknown
        else if builtin_shape bs
             then match find_name bs tab with Some i => OBuiltin i | None => OErr end
             else OMod).
Proof.
  unfold canon_arms. cbn [first_match arm_matches snd]. rewrite andb_true_r.
  destruct (list_eqb zeros4 bs); [reflexivity|]. apply first_match_tail.
Qed.

Theorem read_is_spec bs : vehicle_read bs = spec_read bs.
Proof.
  unfold vehicle_read, spec_read. destruct (Nat.eqb (length bs) 4); [|reflexivity].
  unfold vehicle_read_with, spec_read_with. rewrite arms_canonical, first_match_canon.
  destruct (list_eqb zeros4 bs); [reflexivity|].
  destruct (builtin_shape bs); [|reflexivity].
  destruct (find_name bs vehicle_display_tab); reflexivity.
Qed.

(* ---- table lookups ---- *)
Lemma find_name_some bs tab i :
  find_name bs tab = Some i -> exists nm, In (i, nm) tab /\ nm ++ [0] = bs.
Proof.
  induction tab as [|[j nm] tab IH]; cbn [find_name]; [discriminate|].
  destruct (list_eqb (nm ++ [0]) bs) eqn:E.
  - intros [= ->]. exists nm. split; [left; reflexivity|]. apply list_eqb_eq; exact E.
  - intros H. destruct (IH H) as [nm' [H1 H2]]. exists nm'. split; [right; exact H1|exact H2].
Qed.

Lemma find_name_none bs tab :
  find_name bs tab = None -> forall i nm, In (i, nm) tab -> nm ++ [0] <> bs.
Proof.
  induction tab as [|[j nm] tab IH]; cbn [find_name]; intros H i nm' Hin; [destruct Hin|].
  destruct (list_eqb (nm ++ [0]) bs) eqn:E; [discriminate|].
  destruct Hin as [[= <- <-]|Hin].
  - intros Heq. apply list_eqb_eq in Heq. congruence.
  - apply (IH H i nm' Hin).
Qed.

Lemma find_name_first bs tab i nm :
  nodup_keys tab = true -> In (i, nm) tab -> nm ++ [0] = bs -> find_name bs tab = Some i.
Proof.
  induction tab as [|[j nm'] tab IH]; cbn [nodup_keys find_name]; intros Hnd Hin Hbs; [destruct Hin|].
  apply andb_prop in Hnd as [Hnot Hnd].
  destruct Hin as [[= -> ->]|Hin].
  - replace (list_eqb (nm ++ [0]) bs) with true by (symmetry; apply list_eqb_eq; exact Hbs). reflexivity.
  - destruct (list_eqb (nm' ++ [0]) bs) eqn:E; [|apply IH; assumption].
    exfalso. apply list_eqb_eq in E. rewrite <- Hbs in E. apply app_inj_tail in E as [E _]. subst nm'.
    apply negb_true_iff in Hnot.
    assert (existsb (fun '(j0, nm'0) => (j =? j0) || list_eqb nm nm'0) tab = true) as Hex.
    { apply existsb_exists. exists (i, nm). split; [exact Hin|]. rewrite list_eqb_refl. apply orb_true_r. }
    congruence.
Qed.

Lemma tab_entry i nm : In (i, nm) vehicle_display_tab ->
  length nm = 3%nat /\ forallb is_alnum nm = true /\ assoc i vehicle_write_tab = Some (nm ++ [0]).
Proof.
  intros Hin. pose proof tab_ok as H. rewrite forallb_forall in H. specialize (H _ Hin).
  unfold tab_entry_ok in H.
  apply andb_prop in H as [H H4]. apply andb_prop in H as [H H3]. apply andb_prop in H as [H1 H2].
  apply Nat.eqb_eq in H1. repeat split; auto.
  destruct (assoc i vehicle_write_tab) as [w|]; [|discriminate].
  apply list_eqb_eq in H3. congruence.
Qed.

Lemma len4 (bs : bytes) : length bs = 4%nat -> exists a b c d, bs = [a; b; c; d].
Proof.
  destruct bs as [|a [|b [|c [|d [|e t]]]]]; cbn; intros H; try discriminate. eauto.
Qed.

(* ---- C13 (a): whatever decodes re-encodes to the identical 4 bytes (all 2^32 values) ---- *)
Theorem vehicle_reencode bs v :
  allbytes bs -> vehicle_read bs = Ok v -> vehicle_write v = Ok bs.
Proof.
  intros Hb. rewrite read_is_spec. unfold spec_read.
  destruct (Nat.eqb_spec (length bs) 4) as [Hl|]; [|discriminate].
  unfold spec_read_with.
  destruct (list_eqb zeros4 bs) eqn:Ez.
  - intros [= <-]. apply list_eqb_eq in Ez. cbn [vehicle_write]. rewrite write_unknown_zeros. congruence.
  - destruct (builtin_shape bs) eqn:Es.
    + destruct (find_name bs vehicle_display_tab) as [i|] eqn:Ef; [|discriminate].
      intros [= <-]. destruct (find_name_some _ _ _ Ef) as [nm [Hin Hnm]].
      destruct (tab_entry _ _ Hin) as [_ [_ Hw]]. cbn [vehicle_write]. rewrite Hw. congruence.
    + intros [= <-]. cbn [vehicle_write].
      pose proof (le_dec_bound bs Hb) as Hbd. rewrite Hl in Hbd.
      change (256 ^ N.of_nat 4) with 4294967296 in Hbd.
      replace (le_dec bs <? 4294967296) with true by (symmetry; apply N.ltb_lt; exact Hbd).
      rewrite <- Hl at 1. rewrite le_enc_dec by exact Hb. reflexivity.
Qed.

(* ---- C13 (b): error exactly for an unrecognised built-in-style name ---- *)
Theorem vehicle_err_iff bs : length bs = 4%nat ->
  (vehicle_read bs = Err <->
   bs <> zeros4 /\ builtin_shape bs = true /\ forall i nm, In (i, nm) vehicle_display_tab -> nm ++ [0] <> bs).
Proof.
  intros Hl. rewrite read_is_spec. unfold spec_read. rewrite Hl. cbn [Nat.eqb]. unfold spec_read_with.
  destruct (list_eqb zeros4 bs) eqn:Ez.
  - apply list_eqb_eq in Ez. split; [discriminate|]. intros [H _]. congruence.
  - assert (bs <> zeros4) as Hnz by (intros ->; rewrite list_eqb_refl in Ez; discriminate).
    destruct (builtin_shape bs) eqn:Es.
    + destruct (find_name bs vehicle_display_tab) as [i|] eqn:Ef.
      * split; [discriminate|]. intros [_ [_ H]]. destruct (find_name_some _ _ _ Ef) as [nm [Hin Hnm]].
        exfalso. exact (H _ _ Hin Hnm).
      * split; [|reflexivity]. intros _. repeat split; auto. apply find_name_none. exact Ef.
    + split; [discriminate|]. intros [_ [H _]]. discriminate.
Qed.

(* ---- C13 (c): all zeros <-> Unknown ---- *)
Theorem vehicle_unknown_iff bs : vehicle_read bs = Ok Unknown <-> bs = zeros4.
Proof.
  rewrite read_is_spec. unfold spec_read. split.
  - destruct (Nat.eqb (length bs) 4); [|discriminate]. unfold spec_read_with.
    destruct (list_eqb zeros4 bs) eqn:Ez; [intros _; symmetry; apply list_eqb_eq; exact Ez|].
    destruct (builtin_shape bs); [destruct (find_name bs vehicle_display_tab)|]; discriminate.
  - intros ->. reflexivity.
Qed.

(* ---- C13 (d): mods and built-ins are never confused ---- *)
Theorem vehicle_mod_iff bs id : length bs = 4%nat ->
  (vehicle_read bs = Ok (Mod id) <-> bs <> zeros4 /\ builtin_shape bs = false /\ id = le_dec bs).
Proof.
  intros Hl. rewrite read_is_spec. unfold spec_read. rewrite Hl. cbn [Nat.eqb]. unfold spec_read_with.
  destruct (list_eqb zeros4 bs) eqn:Ez.
  - apply list_eqb_eq in Ez. split; [discriminate|]. intros [H _]. congruence.
  - assert (bs <> zeros4) as Hnz by (intros ->; rewrite list_eqb_refl in Ez; discriminate).
    destruct (builtin_shape bs) eqn:Es.
    + split; [destruct (find_name bs vehicle_display_tab); discriminate|]. intros [_ [H _]]. discriminate.
    + split; [intros [= <-]; auto|]. intros [_ [_ ->]]. reflexivity.
Qed.

Theorem vehicle_builtin_iff bs i : length bs = 4%nat ->
  (vehicle_read bs = Ok (Builtin i) <-> exists nm, In (i, nm) vehicle_display_tab /\ nm ++ [0] = bs).
Proof.
  intros Hl. rewrite read_is_spec. unfold spec_read. rewrite Hl. cbn [Nat.eqb]. unfold spec_read_with. split.
  - destruct (list_eqb zeros4 bs); [discriminate|]. destruct (builtin_shape bs); [|discriminate].
    destruct (find_name bs vehicle_display_tab) as [j|] eqn:Ef; [|discriminate].
    intros [= ->]. apply find_name_some. exact Ef.
  - intros [nm [Hin Hnm]]. destruct (tab_entry _ _ Hin) as [Hlen [Hal _]].
    destruct nm as [|a [|b [|c [|? ?]]]]; try discriminate. subst bs.
    cbn [forallb] in Hal. apply andb_prop in Hal as [Ha Hal]. apply andb_prop in Hal as [Hb0 Hal].
    apply andb_prop in Hal as [Hc _].
    assert (list_eqb zeros4 ([a; b; c] ++ [0]) = false) as Hz.
    { cbn [app]. unfold zeros4. cbn [list_eqb].
      destruct (0 =? a) eqn:E; [|reflexivity]. apply N.eqb_eq in E. subst a. discriminate. }
    rewrite Hz. cbn [app builtin_shape]. rewrite Ha, Hb0, Hc. cbn [andb].
    change (0 =? 0) with true.
    erewrite find_name_first; [reflexivity|apply tab_nodup|exact Hin|reflexivity].
Qed.

(* ---- C13 (e): printed name = wire name for every built-in ---- *)
Theorem vehicle_display_is_wire i nm :
  vehicle_display i = Some nm -> In (i, nm) vehicle_display_tab ->
  vehicle_write (Builtin i) = Ok (nm ++ [0]) /\ length nm = 3%nat.
Proof.
  intros _ Hin. destruct (tab_entry _ _ Hin) as [Hlen [_ Hw]]. cbn [vehicle_write]. rewrite Hw. auto.
Qed.

Lemma assoc_in {A} i (l : list (N * A)) v : assoc i l = Some v -> In (i, v) l.
Proof.
  induction l as [|[j w] l IH]; cbn [assoc]; [discriminate|].
  destruct (N.eqb_spec i j) as [->|]; [intros [= ->]; left; reflexivity|]. intros H. right. auto.
Qed.

Theorem vehicle_display_wire i nm :
  vehicle_display i = Some nm -> vehicle_write (Builtin i) = Ok (nm ++ [0]).
Proof.
  intros H. apply assoc_in in H. apply (vehicle_display_is_wire i nm); [|exact H].
  unfold vehicle_display.
  destruct (tab_entry _ _ H) as [_ [_ Hw]].
  (* assoc returns the first entry for i; keys are unique *)
  clear Hw. pose proof tab_nodup as Hnd. revert H Hnd. generalize vehicle_display_tab as tab.
  induction tab as [|[j nm'] tab IH]; intros Hin Hnd; [destruct Hin|].
  cbn [assoc nodup_keys] in *. apply andb_prop in Hnd as [Hnot Hnd].
  destruct Hin as [[= -> ->]|Hin].
  - rewrite N.eqb_refl. reflexivity.
  - destruct (N.eqb_spec i j) as [->|]; [|apply IH; assumption].
    exfalso. apply negb_true_iff in Hnot.
    assert (existsb (fun '(j0, nm'0) => (j =? j0) || list_eqb nm' nm'0) tab = true) as Hex.
    { apply existsb_exists. exists (j, nm). split; [exact Hin|]. rewrite N.eqb_refl. reflexivity. }
    congruence.
Qed.

(* ---- C13 (f): decode . encode = id on every value reachable by decoding ---- *)
Theorem vehicle_roundtrip_reachable bs v :
  allbytes bs -> vehicle_read bs = Ok v ->
  exists w, vehicle_write v = Ok w /\ vehicle_read w = Ok v.
Proof.
  intros Hb Hr. exists bs. split; [apply vehicle_reencode; assumption|exact Hr].
Qed.

(* non-vacuity: concrete values on each branch *)
Example ex_builtin : vehicle_read [88; 82; 84; 0] = Ok (Builtin 3). Proof. vm_compute. reflexivity. Qed.
Example ex_mod : vehicle_read [1; 2; 3; 4] = Ok (Mod 67305985). Proof. vm_compute. reflexivity. Qed.
Example ex_err : vehicle_read [65; 65; 65; 0] = Err. Proof. vm_compute. reflexivity. Qed.
Example ex_unknown : vehicle_read [0; 0; 0; 0] = Ok Unknown. Proof. vm_compute. reflexivity. Qed.
Example ex_mod_lower : vehicle_read [88; 82; 84; 1] = Ok (Mod 22303320). Proof. vm_compute. reflexivity. Qed.

(* ---- C13 (d'): the classification helpers follow the bytes: a decoded value reports is_mod exactly when its 4 bytes are a mod
   id by the v9 rule, is_builtin is its complement on every decoded value, and the unknown vehicle is not a mod ---- *)
Theorem vehicle_classification bs v : length bs = 4%nat -> vehicle_read bs = Ok v ->
  (is_mod v = true <-> bs <> zeros4 /\ builtin_shape bs = false) /\
  is_builtin v = negb (is_mod v) /\
  (is_mod v = true -> v = Mod (le_dec bs)).
Proof.
  intros Hl Hr. destruct v as [i|id|].
  - (* built-in *) split; [|split]; cbn; try reflexivity; try discriminate.
    split; [discriminate|]. intros [Hz Hs]. pose proof (proj1 (vehicle_builtin_iff bs i Hl) Hr) as [nm [Hin Hnm]].
    destruct (tab_entry _ _ Hin) as [Hlen [Hal _]].
    destruct nm as [|a [|b [|c [|? ?]]]]; try discriminate. subst bs. cbn [app] in Hs. cbn [builtin_shape] in Hs.
    cbn [forallb] in Hal. apply andb_prop in Hal as [Ha Hal]. apply andb_prop in Hal as [Hb Hal]. apply andb_prop in Hal as [Hc _].
    rewrite Ha, Hb, Hc in Hs. discriminate.
  - (* mod *) pose proof (proj1 (vehicle_mod_iff bs id Hl) Hr) as [Hz [Hs Hid]].
    split; [|split]; cbn; try reflexivity.
    + split; auto.
    + intros _. congruence.
  - (* unknown *) apply vehicle_unknown_iff in Hr. subst bs.
    split; [|split]; cbn; try reflexivity; try discriminate.
    split; [discriminate|]. intros [Hz _]. congruence.
Qed.

(* ---- C13 (g): ONE-TO-ONE. Decoding is injective (two 4-byte values that decode to the same vehicle are the same bytes) and the
   writer is injective on the values reachable by decoding; outside that set it is NOT: the mod whose id happens to be the
   little-endian reading of a built-in car's wire name writes that car's bytes (such a Mod value is never produced by decoding,
   vehicle_unreachable_mod) ---- *)
Theorem vehicle_decode_injective bs1 bs2 v :
  allbytes bs1 -> allbytes bs2 -> vehicle_read bs1 = Ok v -> vehicle_read bs2 = Ok v -> bs1 = bs2.
Proof.
  intros H1 H2 R1 R2. apply vehicle_reencode in R1; [|exact H1]. apply vehicle_reencode in R2; [|exact H2]. congruence.
Qed.

Theorem vehicle_write_injective_on_reachable bs1 bs2 v1 v2 :
  allbytes bs1 -> allbytes bs2 -> vehicle_read bs1 = Ok v1 -> vehicle_read bs2 = Ok v2 ->
  vehicle_write v1 = vehicle_write v2 -> v1 = v2.
Proof.
  intros H1 H2 R1 R2 Hw.
  pose proof (vehicle_reencode _ _ H1 R1) as W1. pose proof (vehicle_reencode _ _ H2 R2) as W2.
  assert (bs1 = bs2) as -> by congruence. congruence.
Qed.

Lemma alnum_byte b : is_alnum b = true -> b < 256.
Proof.
  unfold is_alnum. intros H. apply N.ltb_lt.
  destruct (b <=? 122) eqn:E; [apply N.leb_le in E; apply N.ltb_lt; lia|].
  destruct (b <=? 90) eqn:E2; [apply N.leb_le in E2; apply N.ltb_lt; lia|].
  destruct (b <=? 57) eqn:E3; [apply N.leb_le in E3; apply N.ltb_lt; lia|].
  rewrite !andb_false_r in H. discriminate.
Qed.

Theorem vehicle_write_collides_off_reachable i nm :
  vehicle_display i = Some nm ->
  vehicle_write (Mod (le_dec (nm ++ [0]))) = vehicle_write (Builtin i) /\
  forall bs, allbytes bs -> vehicle_read bs <> Ok (Mod (le_dec (nm ++ [0]))).
Proof.
  intros Hd. pose proof (vehicle_display_wire _ _ Hd) as Hw. apply assoc_in in Hd.
  destruct (tab_entry _ _ Hd) as [Hlen [Hal _]].
  assert (allbytes (nm ++ [0])) as Hb.
  { unfold allbytes. apply Forall_app. split.
    - apply Forall_forall. intros x Hx. rewrite forallb_forall in Hal. unfold isbyte. apply alnum_byte. auto.
    - constructor; [unfold isbyte; lia|constructor]. }
  assert (length (nm ++ [0]) = 4%nat) as Hl by (rewrite app_length, Hlen; reflexivity).
  split.
  - rewrite Hw. cbn [vehicle_write].
    pose proof (le_dec_bound _ Hb) as Hbd. rewrite Hl in Hbd.
    change (256 ^ N.of_nat 4) with 4294967296 in Hbd.
    replace (le_dec (nm ++ [0]) <? 4294967296) with true by (symmetry; apply N.ltb_lt; exact Hbd).
    rewrite <- Hl at 1. rewrite le_enc_dec by exact Hb. reflexivity.
  - intros bs Hbs Hr.
    pose proof (vehicle_reencode _ _ Hbs Hr) as W.
    assert (vehicle_write (Mod (le_dec (nm ++ [0]))) = Ok (nm ++ [0])) as W'.
    { cbn [vehicle_write].
      pose proof (le_dec_bound _ Hb) as Hbd. rewrite Hl in Hbd.
      change (256 ^ N.of_nat 4) with 4294967296 in Hbd.
      replace (le_dec (nm ++ [0]) <? 4294967296) with true by (symmetry; apply N.ltb_lt; exact Hbd).
      rewrite <- Hl at 1. rewrite le_enc_dec by exact Hb. reflexivity. }
    assert (bs = nm ++ [0]) as -> by congruence.
    assert (vehicle_read (nm ++ [0]) = Ok (Builtin i)) as Hb'.
    { apply vehicle_builtin_iff; [exact Hl|]. exists nm. auto. }
    congruence.
Qed.

Example ex_collision : vehicle_write (Mod 4671064) = vehicle_write (Builtin 0).
Proof. vm_compute. reflexivity. Qed.
