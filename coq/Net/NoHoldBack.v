(* Net/NoHoldBack.v — a packet that is completely in the receive buffer is delivered by the next read()
   without any further input from the transport: the connection never waits for more traffic before it
   hands over what it already holds.  (C05 / C08: a peer that sends nothing until its packets have been
   read is not kept waiting.)  Blocking model (Net/Framed.v) and async model (Net/Async.v). *)
Require Import Base.Bytes Net.Frame Net.FrameProofs Net.Framed Net.FramedProofs Net.Async Net.AsyncProofs.
Require Import Lia.
Local Open Scope N_scope.

Section NoHoldBack.
  Variable packet : Type.
  Variable parse : bytes -> res packet.
  Variable ver_of : packet -> option N.
  Variable is_keepalive : packet -> bool.
  Variable version : N.
  Variable m : mode.
  Variable verify : bool.
  Variable pong : bytes.
  Hypothesis parse_total : forall b, parse b <> Panic.

  Notation read := (read packet parse ver_of is_keepalive version m verify pong).
  Notation expected_frame := (expected_frame packet parse ver_of is_keepalive version verify pong).
  Notation fstate := (fstate packet).
  Notation after_decode := (after_decode packet parse ver_of is_keepalive version m verify pong).
  Notation read_loop := (read_loop packet parse ver_of is_keepalive version m verify pong).
  Notation poll_from := (poll_from packet parse ver_of is_keepalive version m verify pong).
  Notation wf := (wf_frame m).

  (* blocking: the result is the frame's own, the rest of the buffer stays, the transport script is untouched *)
  Theorem read_serves_buffered_frame f rest tr : wf f ->
    read (f ++ rest) tr = (expected_frame f, rest, tr).
  Proof.
    intros Hwf. rewrite read_unfold, (try_decode_complete _ parse ver_of is_keepalive version m verify pong parse_total) by exact Hwf.
    reflexivity.
  Qed.

  (* async: the decode step of the loop does not ask for more data *)
  Lemma after_decode_complete f rest ws wr : wf f -> after_decode (f ++ rest) ws wr <> None.
  Proof.
    intros Hwf. unfold Async.after_decode.
    destruct (f ++ rest) eqn:E.
    { apply app_eq_nil in E as [E _]. exfalso. destruct Hwf as [H4 _]. subst f. cbn in H4. unfold min_len in H4. lia. }
    rewrite <- E, decode_complete by exact Hwf.
    destruct (parse (tl f)) as [p| |] eqn:Ep; try discriminate.
    destruct (if verify then ver_of p else None); [destruct (_ =? _)|]; discriminate.
  Qed.

  Lemma read_loop_unfold_false buf rs ws wr :
    read_loop false buf rs ws wr =
    match after_decode buf ws wr with
    | Some (o, s, ws', wr') => (o, s, rs, ws', wr')
    | None => read_loop true buf rs ws wr
    end.
  Proof. destruct rs as [|[[| | |]|] rs']; cbn [Async.read_loop]; destruct (after_decode buf ws wr) as [[[[? ?] ?] ?]|]; try reflexivity. Qed.

  (* a fresh read() on a connection with nothing parked whose buffer starts with a complete frame: the poll does not
     touch the read half of the transport and does not suspend in the transport read - it completes, or waits for
     the WRITE half to take the keep-alive reply *)
  Theorem poll_serves_buffered_frame f rest (s : fstate) rs ws : wf f ->
    fbuf s = f ++ rest -> pend_w s = [] -> pend_p s = None ->
    let '(o, s', rs', ws', w) := poll_from Top s rs ws in
    rs' = rs /\ o <> PPending InRead.
  Proof.
    intros Hwf Hb Hw Hp. unfold Async.poll_from. rewrite Hw, flush_nil, Hp, Hb, read_loop_unfold_false.
    pose proof (after_decode_complete f rest ws [] Hwf) as Hne.
    destruct (after_decode (f ++ rest) ws []) as [[[[o s1] ws1] wr1]|] eqn:Ea; [|congruence].
    split; [reflexivity|].
    intros ->. unfold Async.after_decode in Ea.
    destruct (f ++ rest) eqn:E; [discriminate|]. rewrite <- E in Ea. rewrite decode_complete in Ea by exact Hwf.
    assert (forall p r ws0 wr0 s0 ws2 wr2, deliverK packet is_keepalive pong p r ws0 wr0 <> (PPending InRead, s0, ws2, wr2)) as HdK.
    { intros p r ws0 wr0 s0 ws2 wr2. unfold deliverK. destruct (is_keepalive p); [|discriminate].
      destruct (flush pong ws0) as [[[[| |e] pw] ws3] w3]; discriminate. }
    destruct (parse (tl f)) as [p| |] eqn:Ep.
    - destruct (if verify then ver_of p else None).
      + destruct (_ =? _); [injection Ea as Ea; exact (HdK _ _ _ _ _ _ _ Ea)|discriminate].
      + injection Ea as Ea. exact (HdK _ _ _ _ _ _ _ Ea).
    - discriminate.
    - discriminate.
  Qed.
End NoHoldBack.
