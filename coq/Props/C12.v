(* Props/C12.v — escaping makes arbitrary text wire-safe; colour stripping is exact. *)
Require Import Coq.Strings.String.
Require Import Base.Bytes Gen.TextTab Text.Escape Text.EscapeProofs Text.Codepage Text.CodepageProofs.
Local Open Scope N_scope.

Theorem c12_unescape_escape : forall s, unescape (escape s) = s.
Proof. exact unescape_escape. Qed.

Theorem c12_escaped_is_reserved_free : forall s, existsb reserved (escape s) = false.
Proof. exact escape_reserved_free. Qed.

(* strip = the text with exactly the colour tokens (^0..^9) deleted, where the text is read as
   tokens "^^" | "^digit" | single character; escaped carets are untouched; idempotent *)
Theorem c12_strip_removes_exactly_colours : forall s,
  strip s = concat (map (render false) (tokens s)) /\ s = concat (map (render true) (tokens s)).
Proof. exact strip_spec. Qed.
Theorem c12_strip_idempotent : forall s, strip (strip s) = strip s.
Proof. exact strip_idempotent. Qed.
Theorem c12_strip_keeps_text_without_colours : forall s,
  (forall d, ~ In (TColour d) (tokens s)) -> strip s = s.
Proof. exact strip_keeps_escaped_carets. Qed.

(* the fast paths are unobservable *)
Theorem c12_fast_paths : forall s, escape s = esc s /\ unescape s = unesc s /\ strip s = strp s.
Proof. intros. split; [apply escape_is_esc|split; [apply unescape_is_unesc|apply strip_is_strp]]. Qed.

(* composition with the codepage path: proved for ASCII text without carets, for any code tables
   that decode ASCII as itself ... *)
Theorem c12_wire_composition_partial : forall enc dec,
  (forall l bs, forallb is_ascii bs = true -> dec l bs = bs) ->
  forall s, forallb is_ascii s = true -> existsb is_caret s = false ->
  unescape (to_lossy_string dec (to_lossy_bytes enc (escape s))) = s.
Proof. exact escaped_ascii_survives_wire. Qed.
(* ... and refuted in general: a caret followed by a codepage letter is eaten by the decoder's
   marker scan (known finding) *)
Theorem c12_caret_marker_refuted : forall enc dec,
  (forall l bs, forallb is_ascii bs = true -> dec l bs = bs) ->
  exists s, forallb is_ascii s = true /\ unescape (to_lossy_string dec (to_lossy_bytes enc (escape s))) <> s.
Proof. exact caret_marker_refuted. Qed.

Theorem c12_tables : tab_inverse = true. Proof. exact tab_inverse_ok. Qed.
Example c12_example : escape [94; 124; 42; 49] = [94; 94; 94; 118; 94; 97; 49] /\ strip [94; 94; 49; 94; 50; 51] = [94; 94; 49; 51].
Proof. vm_compute. auto. Qed.
