(* Props/C13.v — Vehicle identifiers map one-to-one onto their 4 wire bytes.
   Property theorems only; each is closed by [exact] of a lemma proved in Core/VehicleProofs.v. *)
Require Import Base.Bytes Core.VehicleDefs Gen.VehicleTab Core.Vehicle Core.VehicleProofs.
Local Open Scope N_scope.

(* the model's read is the InSim v9 rule (zeros = unknown; 3 alphanumerics + NUL = built-in name,
   unrecognised = error; anything else = mod id), for every byte list *)
Theorem c13_read_is_v9_rule : forall bs, vehicle_read bs = spec_read bs.
Proof. exact read_is_spec. Qed.

(* every 4-byte value that decodes re-encodes to the identical 4 bytes: all 2^32 values *)
Theorem c13_reencode_identical : forall bs v,
  allbytes bs -> vehicle_read bs = Ok v -> vehicle_write v = Ok bs.
Proof. exact vehicle_reencode. Qed.

Theorem c13_error_iff_unrecognised_builtin_name : forall bs, length bs = 4%nat ->
  (vehicle_read bs = Err <->
   bs <> zeros4 /\ builtin_shape bs = true /\
   forall i nm, In (i, nm) vehicle_display_tab -> nm ++ [0] <> bs).
Proof. exact vehicle_err_iff. Qed.

Theorem c13_unknown_iff_zeros : forall bs, vehicle_read bs = Ok Unknown <-> bs = zeros4.
Proof. exact vehicle_unknown_iff. Qed.

Theorem c13_mod_iff_not_builtin_shape : forall bs id, length bs = 4%nat ->
  (vehicle_read bs = Ok (Mod id) <-> bs <> zeros4 /\ builtin_shape bs = false /\ id = le_dec bs).
Proof. exact vehicle_mod_iff. Qed.

Theorem c13_builtin_iff_named : forall bs i, length bs = 4%nat ->
  (vehicle_read bs = Ok (Builtin i) <-> exists nm, In (i, nm) vehicle_display_tab /\ nm ++ [0] = bs).
Proof. exact vehicle_builtin_iff. Qed.

(* ... and the classification helpers of the typed API (is_mod / is_builtin, regenerated from their source) follow the bytes: a decoded
   value reports is_mod exactly when its 4 bytes are a mod id by the rule, is_builtin is the complement, and a value that reports
   is_mod IS that mod - so the unknown vehicle and every built-in car are never taken for a mod *)
Theorem c13_classification_follows_the_bytes : forall bs v, length bs = 4%nat -> vehicle_read bs = Ok v ->
  (is_mod v = true <-> bs <> zeros4 /\ builtin_shape bs = false) /\
  is_builtin v = negb (is_mod v) /\
  (is_mod v = true -> v = Mod (le_dec bs)).
Proof. exact vehicle_classification. Qed.

Theorem c13_printed_name_is_wire_name : forall i nm,
  vehicle_display i = Some nm -> vehicle_write (Builtin i) = Ok (nm ++ [0]).
Proof. exact vehicle_display_wire. Qed.

Theorem c13_roundtrip_on_reachable : forall bs v,
  allbytes bs -> vehicle_read bs = Ok v -> exists w, vehicle_write v = Ok w /\ vehicle_read w = Ok v.
Proof. exact vehicle_roundtrip_reachable. Qed.

(* ONE-TO-ONE, both directions, on what decoding can produce: two 4-byte values that decode to the same vehicle are the same 4 bytes,
   and two decoded vehicles that encode to the same bytes are the same vehicle *)
Theorem c13_decode_injective : forall bs1 bs2 v,
  allbytes bs1 -> allbytes bs2 -> vehicle_read bs1 = Ok v -> vehicle_read bs2 = Ok v -> bs1 = bs2.
Proof. exact vehicle_decode_injective. Qed.

Theorem c13_encode_injective_on_reachable : forall bs1 bs2 v1 v2,
  allbytes bs1 -> allbytes bs2 -> vehicle_read bs1 = Ok v1 -> vehicle_read bs2 = Ok v2 ->
  vehicle_write v1 = vehicle_write v2 -> v1 = v2.
Proof. exact vehicle_write_injective_on_reachable. Qed.

(* ... and why the property says "reachable by decoding": outside that set the writer is NOT one-to-one. For every built-in car the
   Mod value whose id is the little-endian reading of the car's wire name encodes to the car's bytes; no 4-byte value decodes to it *)
Theorem c13_encode_collides_only_off_reachable : forall i nm,
  vehicle_display i = Some nm ->
  vehicle_write (Mod (le_dec (nm ++ [0]))) = vehicle_write (Builtin i) /\
  forall bs, allbytes bs -> vehicle_read bs <> Ok (Mod (le_dec (nm ++ [0]))).
Proof. exact vehicle_write_collides_off_reachable. Qed.

(* the built-in set is LFS's 20 cars (hand transcription), and variant identifiers match names *)
Theorem c13_builtin_set_is_lfs : same_car_set = true /\ forallb tab_entry_ok vehicle_display_tab = true
                                  /\ nodup_keys vehicle_display_tab = true.
Proof. exact (conj cars_same (conj tab_ok tab_nodup)). Qed.
