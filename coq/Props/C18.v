(* Props/C18.v — the handshake carries exactly the configured connection options. *)
Require Import Coq.Strings.String.
Require Import Base.Bytes Gen.BuilderTab Gen.NetConsts Net.Frame Builder.Builder Builder.BuilderProofs.
Require Import Wire.Layout Wire.Customs Wire.LayoutProofs Wire.CustomProofs Wire.Packet Wire.PacketProofs Gen.Packets.
Local Open Scope N_scope.

(* for ALL builder call sequences (any length, any order, later calls overriding earlier ones):
   every ISI field is the last value set or its documented default; the UDP port is carried only
   for a UDP configuration and is 0 without a local address; every flag bit is decided by the last
   call that touches it (its own setter, or a wholesale isi_flags replacement) *)
Theorem c18_isi_carries_last_set_or_default : forall ops,
  let i := isi_of (build ops) in
  i_reqi i = match last_some sets_reqi ops with Some v => v | None => 0 end /\
  i_admin i = match last_some sets_admin ops with Some (Some a) => a | _ => [] end /\
  i_iname i = match last_some sets_iname ops with Some (Some n) => n | _ => gen_default_iname end /\
  i_prefix i = match last_some sets_prefix ops with Some (Some p) => p | _ => 0 end /\
  i_interval i = match last_some sets_interval ops with Some (Some d) => d | _ => 0 end /\
  i_version i = gen_version /\
  i_udpport i = match last_some sets_proto ops with
                | Some Udp => match last_some sets_local ops with Some (Some p) => p | _ => 0 end
                | _ => 0 end /\
  (forall k, N.testbit (i_flags i) k = match last_some (touches k) ops with Some v => v | None => false end).
Proof. exact isi_fields. Qed.

(* a flag setter changes exactly its own bit *)
Theorem c18_flag_setter_changes_only_its_bit : forall flags bit e k,
  N.testbit (set_flag flags bit e) k = if N.testbit bit k then e else N.testbit flags k.
Proof. exact set_flag_bit. Qed.

(* the ten setters regenerated from builder.rs each own one distinct bit, the bit of the IsiFlags
   constant of the same name; isi() has the pinned shape; the version is VERSION *)
Theorem c18_setters_match_flags : setters_ok = true.
Proof. exact setters_hold. Qed.

(* mode and protocol used for the connection *)
Theorem c18_mode_and_proto : forall ops,
  b_mode (build ops) = match last_some sets_mode ops with Some v => v | None => Compressed end /\
  b_proto (build ops) = match last_some sets_proto ops with Some v => v | None => Tcp end.
Proof. intros. split; [apply mode_last_or_default|apply proto_last_or_default]. Qed.

(* the handshake frame: the ISI as a model packet; whenever it is in the wire domain its frame in the
   configured mode decodes back to exactly that ISI (C01) and is one well-formed frame (C03) *)
Definition isi_pval (i : isi) : pval :=
  PV 1 [VN (i_reqi i); VU; VN (i_udpport i); VN (i_flags i); VN (i_version i); VN (i_prefix i);
        VN (i_interval i); VB (i_admin i); VB (i_iname i)] TVNone.
Theorem c18_handshake_frame_roundtrip : forall ops fr rest,
  let b := build ops in
  pindom (isi_pval (isi_of b)) = true ->
  frame_encode (b_mode b) (isi_pval (isi_of b)) = Ok fr ->
  frame_decode (b_mode b) (fr ++ rest) = Got (isi_pval (isi_of b)) rest /\ wf_frame (b_mode b) fr.
Proof.
  intros ops fr rest b Hd He. split; [apply frame_roundtrip; assumption|].
  apply (frame_encode_wellformed _ _ _ He).
Qed.

(* the setters outside the handshake's footprint - relay_select_host, the relay passwords, connect_timeout, tcp_nodelay,
   relay_websocket ([OOther]; their regenerated footprints are disjoint from every option above) - can be dropped from any call
   sequence: the configuration the handshake is built from (every ISI field, the size mode, the protocol) is the same *)
Theorem c18_relay_options_do_not_reach_the_handshake : forall ops1 ops2,
  build (ops1 ++ OOther :: ops2) = build (ops1 ++ ops2).
Proof. exact other_setter_is_invisible. Qed.

(* every setter of the source assigns exactly the fields the model's setter changes (regenerated footprints): in particular
   relay() touches the protocol only and the size mode is written by mode() alone *)
Theorem c18_setters_touch_only_their_own_option : footprints_tied = true.
Proof. vm_compute. reflexivity. Qed.


Example c18_example :
  frame_encode Compressed (isi_pval (isi_of (build [OFlag 0 true; OUdp None; OReqi 7; OFlag 1 true; OFlag 0 false])))
  = Ok ([11; 1; 7; 0; 0; 0; 4; 0; 9; 0; 0; 0] ++ repeat 0 16 ++ [105; 110; 115; 105; 109; 46; 114; 115] ++ repeat 0 8).
Proof. vm_compute. reflexivity. Qed.
