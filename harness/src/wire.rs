//! C01 / C03 / C04: whole-frame codec on structured frames generated from the regenerated layouts,
//! direct oracles on the implementation, case lines for the wire model driver.
use std::collections::HashSet;

use bytes::BytesMut;
use insim::{net::Codec, Error, Packet};

use crate::{common::*, gen::layouts::KINDS, layout::*, net::{mode_of, mode_tag}};

pub enum Dec { Need, Got(Packet, usize), Bad(usize), FrameErr, Panic, Other(String) }

// One long-lived codec per size mode, as a connection has: whatever an earlier call (a refused packet, a decode error, a panic
// caught by the harness) may have left behind in it is in play for every later call of the run.
thread_local! { static SHARED: [Codec; 2] = [Codec::new(mode_of(false)), Codec::new(mode_of(true))]; }
pub fn decode_buf(compressed: bool, buf: &[u8]) -> Dec {
    let mut b = BytesMut::from(buf);
    match watched("Codec::decode", || format!("{} {}", mode_tag(compressed), hex(buf)), || guard(|| SHARED.with(|c| c[compressed as usize].decode(&mut b)))) {
        None => Dec::Panic,
        Some(Ok(None)) => if b.len() == buf.len() { Dec::Need } else { Dec::Other("Ok(None) but the buffer changed".into()) },
        Some(Ok(Some(p))) => Dec::Got(p, buf.len() - b.len()),
        Some(Err(Error::BinRw(_))) => Dec::Bad(buf.len() - b.len()),
        Some(Err(Error::IO { kind: std::io::ErrorKind::InvalidData, .. })) => if b.len() == buf.len() { Dec::FrameErr } else { Dec::Other("framing error but the buffer changed".into()) },
        Some(Err(e)) => Dec::Other(format!("{:?}", e)),
    }
}
pub fn cls_string(d: &Dec) -> String {
    match d { Dec::Need => "need 0".into(), Dec::Got(_, n) => format!("got {n}"), Dec::Bad(n) => format!("bad {n}"), Dec::FrameErr => "frameerr 0".into(), Dec::Panic => "panic 0".into(), Dec::Other(s) => format!("other {s}") }
}

pub enum Enc { Ok(Vec<u8>), Err, Panic }
pub fn encode_p(compressed: bool, p: &Packet) -> Enc {
    match guard(|| SHARED.with(|c| c[compressed as usize].encode(p))) { None => Enc::Panic, Some(Ok(b)) => Enc::Ok(b.to_vec()), Some(Err(_)) => Enc::Err }
}
/// the same on a codec created for this one call
pub fn encode_fresh(compressed: bool, p: &Packet) -> Enc {
    let codec = Codec::new(mode_of(compressed));
    match guard(|| codec.encode(p)) { None => Enc::Panic, Some(Ok(b)) => Enc::Ok(b.to_vec()), Some(Err(_)) => Enc::Err }
}

/// C03: a successfully encoded frame is one well-formed frame; None = holds
pub fn wellformed(compressed: bool, frame: &[u8], kind_magic: u8) -> Option<String> {
    let max = if compressed { 1020 } else { 255 };
    if frame.len() < 4 || frame.len() > max { return Some(format!("length {} outside 4..={max}", frame.len())); }
    if frame.len() % 4 != 0 { return Some(format!("length {} is not a multiple of 4", frame.len())); }
    let want = if compressed { frame.len() / 4 } else { frame.len() };
    if frame[0] as usize != want { return Some(format!("size byte {} for a {}-byte frame", frame[0], frame.len())); }
    if frame[1] != kind_magic { return Some(format!("type byte {} for kind {}", frame[1], kind_magic)); }
    if let Some(k) = KINDS.iter().find(|k| k.magic == kind_magic) {
        // element-count byte equals the number of elements that follow
        let mut off = 2; let mut cnt: Option<(usize, usize)> = None;
        for (_, a) in k.fixed { if let Atom::Count { w, .. } = a { cnt = Some((off, *w)); } off += width(a); }
        if let Some((co, w)) = cnt {
            let c = (0..w).fold(0usize, |acc, i| acc | (frame[co + i] as usize) << (8 * i));
            let n = match k.tail { Tail::Vec { elt, padm, padk } => { let ew = fixed_width(elt); let rest = frame.len() - off; let n = rest / ew; if n * ew + (n % padm) * padk != rest { return Some(format!("tail of {rest} bytes is not a whole number of {ew}-byte elements (+ padding)")); } n }, Tail::Words => (frame.len() - off) / 4, _ => c };
            if c != n { return Some(format!("count byte {c} but {n} elements follow")); }
        }
    }
    match decode_buf(compressed, frame) {
        Dec::Got(p, n) => { if n != frame.len() { return Some(format!("decoding consumed {n} of {} bytes", frame.len())); } let _ = p; None },
        d => Some(format!("the encoder's own output does not decode: {}", cls_string(&d))),
    }
}

fn packet_magic(p: &Packet) -> Option<u8> {
    let name = format!("{:?}", p); let v = name.split('(').next().unwrap_or("");
    crate::gen::kinds::KINDS.iter().find(|(_, n)| *n == v).map(|(m, _)| *m)
}

/// run one frame through decode -> encode -> decode -> encode on the implementation; returns the
/// canonical result string (same grammar as the model driver) and records oracle failures
pub fn roundtrip(prop: &str, compressed: bool, frame: &[u8], meta: Option<&Meta>, st: &mut Stats) -> String {
    let id = format!("{} {}", mode_tag(compressed), hex(frame));
    match decode_buf(compressed, frame) {
        Dec::Panic => { st.fail(format!("[{prop}] decoding panics"), id); "dec:P".into() },
        Dec::Bad(n) => { if n != frame.len() { st.fail(format!("[{prop}] decode error removed {n} of {} bytes", frame.len()), id.clone()); }
            if let Some(m) = meta { if !m.invalid { st.fail(format!("[{prop}] a frame of valid field values does not decode"), id); } } "dec:E".into() },
        Dec::Got(p, n) => {
            if n != frame.len() { st.fail(format!("[{prop}] decoding consumed {n} of {} bytes", frame.len()), id.clone()); }
            let dbg = format!("{:?}", p);
            // the same frame with another frame already behind it in the receive buffer: same packet, same bytes consumed
            { let mut two = frame.to_vec(); two.extend_from_slice(if compressed { &[1u8, 3, 2, 3] } else { &[4u8, 3, 2, 3] });
              match decode_buf(compressed, &two) { Dec::Got(q, m) => { if m != n || format!("{:?}", q) != dbg { st.fail(format!("[{prop}] with a second frame behind it in the buffer the frame decodes differently: {} ({} bytes consumed)", format!("{:?}", q).chars().take(120).collect::<String>(), m), id.clone()); } }, d => st.fail(format!("[{prop}] with a second frame behind it in the buffer the frame no longer decodes: {}", cls_string(&d)), id.clone()) } }
            match encode_p(compressed, &p) {
                Enc::Panic => { st.fail(format!("[{prop}] a packet obtained by decoding makes the encoder panic: {}", dbg.chars().take(120).collect::<String>()), id); "enc:P".into() },
                Enc::Err => { if let Some(m) = meta { if m.canonical { st.fail(format!("[{prop}] a canonical frame decodes to a packet the encoder refuses"), id); } } "enc:E".into() },
                Enc::Ok(e) => {
                    if let Some(w) = wellformed(compressed, &e, frame[1]) { st.fail(format!("[{prop}/C03] encoder output malformed: {w}"), id.clone()); }
                    if let Some(m) = meta { if m.canonical && e != frame { st.fail(format!("[{prop}] canonical frame re-encodes differently: {}", hex(&e)), id.clone()); } }
                    match decode_buf(compressed, &e) {
                        Dec::Got(p2, _) => {
                            let d2 = format!("{:?}", p2);
                            if d2 != dbg && !meta.map_or(false, |m| m.unrepresentable) { let pos = dbg.chars().zip(d2.chars()).position(|(a, b)| a != b).unwrap_or(0); st.fail(format!("[{prop}] encode then decode changes the packet near `{}` -> `{}`", dbg.chars().skip(pos.saturating_sub(30)).take(70).collect::<String>(), d2.chars().skip(pos.saturating_sub(30)).take(70).collect::<String>()), id.clone()); }
                            match encode_p(compressed, &p2) { Enc::Ok(e2) => if e2 != e { st.fail(format!("[{prop}] re-encoding a decoded frame is not stable"), id.clone()); }, _ => st.fail(format!("[{prop}] second encoding fails"), id.clone()) }
                        },
                        d => st.fail(format!("[{prop}] encoder output does not decode: {}", cls_string(&d)), id.clone()),
                    }
                    format!("ok:{}", hex(&e))
                },
            }
        },
        d => { st.fail(format!("[{prop}] a complete frame gives {}", cls_string(&d)), id); format!("other:{}", cls_string(&d)) },
    }
}

pub fn run_c01(a: &Args) {
    if let Some(r) = &a.replay {
        let t: Vec<&str> = r.split_whitespace().collect();
        let mut st = Stats::default();
        let out = roundtrip("C01", t[0] == "C", &unhex(t[1]), None, &mut st);
        // canonical expectation is part of the replay id when given
        if t.len() > 2 && t[2] == "canonical" && out != format!("ok:{}", t[1]) { st.fail("canonical frame re-encodes differently".into(), r.clone()); }
        if st.failures_total > 0 { println!("FAIL {} -> {}", st.failures[0].1, out); std::process::exit(1) } else { println!("PASS {out}"); return }
    }
    let mut rng = Rng::new(a.seed);
    let mut st = Stats::default(); let mut out = Out::new(&a.out);
    let mut seen = HashSet::new();
    let per = if a.thorough() { 400 } else { 24 };
    for compressed in [true, false] {
        for k in KINDS.iter() {
            let mut made = 0;
            for i in 0..per {
                let dirt = match i % 4 { 0 | 1 => 0, 2 => 1, _ => 2 };
                if let Some((f, m)) = gen_frame(&mut rng, k, compressed, dirt, None) {
                    made += 1; st.evaluations += 1;
                    let res = roundtrip("C01", compressed, &f, Some(&m), &mut st);
                    out.case(&format!("rt {} {}", mode_tag(compressed), hex(&f)), &res);
                    if seen.insert(f.clone()) && f.len() > 4 { st.distinct_nontrivial += 1; }
                    st.bump(&format!("outcome:{}", res.split(':').next().unwrap()));
                    st.bump(if m.canonical { "gen:canonical" } else if m.invalid { "gen:invalid-field" } else { "gen:non-canonical" });
                    if m.rows > 0 { st.bump("gen:with-tail-elements"); }
                }
            }
            if made == 0 && !matches!(k.tail, Tail::Hand) { st.fail(format!("[C01/C03] kind {} has no frameable length in {} mode (fixed part {} bytes)", k.name, mode_tag(compressed), 2 + fixed_width(k.fixed)), format!("{} kind:{}", mode_tag(compressed), k.name)); }
            st.bump(&format!("kinds:{}", if made > 0 { "generated" } else { "hand-modelled" }));
        }
        // Mso (hand-modelled): ASCII names and messages
        for i in 0..per {
            let name = stable_text(&mut rng, (i % 5) * 3); let ml = 1 + rng.below(90) as usize; let msg = stable_text(&mut rng, ml);
            let ut = rng.below(4) as u8;
            let mut body = vec![11u8, rng.byte(), 0, rng.byte(), rng.byte(), ut, name.len() as u8];
            body.extend(&name); body.extend(&msg);
            while (body.len() + 1) % 4 != 0 { body.push(0); }
            let mut f = vec![if compressed { ((body.len() + 1) / 4) as u8 } else { (body.len() + 1) as u8 }]; f.extend(body);
            st.evaluations += 1;
            let m = Meta { canonical: true, ..Default::default() };
            let res = roundtrip("C01", compressed, &f, Some(&m), &mut st);
            out.case(&format!("rt {} {}", mode_tag(compressed), hex(&f)), &res);
        }
    }
    st.rule = "frames generated from the regenerated layouts of all 73 kinds x both modes: per atom boundary values (0,1,max,max-1,mid), every enumerant / single flag bit / random subsets, nibbles, text at width-1/width, counts 0/1/2/max, in three dirt levels (canonical / non-canonical spare+flag+bool bytes / invalid enumerants); each run decode->encode->decode->encode on the real Codec; distinct frames longer than 4 bytes counted".into();
    st.sample("rt C 01030203 -> ok:01030203".into());
    out.finish(&st);
}

// ---------------------------------------------------------------- C04
pub fn run_c04(a: &Args) {
    let mut rng = Rng::new(a.seed);
    let check = |compressed: bool, buf: &[u8], st: &mut Stats| -> String {
        let d = decode_buf(compressed, buf);   // (watched: a decode that does not return is reported with its input)
        let id = format!("{} {}", mode_tag(compressed), hex(buf));
        let ann = if buf.is_empty() { 0 } else { buf[0] as usize * if compressed { 4 } else { 1 } };
        let max = if compressed { 1020 } else { 255 };
        match &d {
            Dec::Panic => st.fail("[C04] Codec::decode panics".into(), id),
            Dec::Other(s) => st.fail(format!("[C04] unexpected outcome {s}"), id),
            Dec::Need => if buf.len() >= 4 && ann >= 4 && ann <= max && buf.len() >= ann { st.fail("[C04] need-more although the announced frame is complete".into(), id) },
            Dec::Got(_, n) | Dec::Bad(n) => if *n != ann || *n < 4 || *n > buf.len() { st.fail(format!("[C04] removed {n} bytes but the announced frame is {ann}"), id) },
            Dec::FrameErr => if buf.len() < 4 || (ann >= 4 && ann <= max) { st.fail(format!("[C04] framing error for a possible announced length {ann}"), id) },
        }
        // locality: bytes after the announced frame must not matter
        if let Dec::Got(p, n) = &d { if buf.len() > *n { if let Dec::Got(p2, _) = decode_buf(compressed, &buf[..*n]) { if format!("{:?}", p) != format!("{:?}", p2) { st.fail("[C04] bytes beyond the announced frame changed the decoded packet".into(), format!("{} {}", mode_tag(compressed), hex(buf))); } } } }
        cls_string(&d)
    };
    if let Some(r) = &a.replay {
        let t: Vec<&str> = r.split_whitespace().collect(); let mut st = Stats::default();
        let o = check(t[0] == "C", &unhex(t[1]), &mut st);
        if st.failures_total > 0 { println!("FAIL {} ({o})", st.failures[0].1); std::process::exit(1) } else { println!("PASS {o}"); return }
    }
    let mut st = Stats::default(); let mut out = Out::new(&a.out);
    let mut seen = HashSet::new();
    for compressed in [true, false] {
        let mut one = |buf: Vec<u8>, st: &mut Stats, out: &mut Out, corr: bool| {
            st.evaluations += 1;
            let o = check(compressed, &buf, st);
            st.bump(&format!("outcome:{}", o.split(' ').next().unwrap()));
            if corr { out.case(&format!("cls {} {}", mode_tag(compressed), hex(&buf)), &o); }
            if seen.insert((compressed, buf.clone())) && buf.len() >= 4 { st.distinct_nontrivial += 1; }
        };
        // 1. every (size, type) header pair with zero and random bodies (exhaustive over headers)
        for size in 0..=255u8 { for ty in 0..=255u8 {
            let ann = size as usize * if compressed { 4 } else { 1 };
            let mut z = vec![size, ty]; z.resize(ann.max(4).min(1024), 0);
            one(z, &mut st, &mut out, ty % 4 == 0 || size < 8);
            let mut r = vec![size, ty]; r.extend(rng.bytes(ann.max(4).min(1024) - 2 + (size % 3) as usize));
            one(r, &mut st, &mut out, ty % 8 == 1);
        } }
        st.exhaustive.push(format!("all 65536 (size,type) header pairs, zero and random bodies ({} mode)", mode_tag(compressed)));
        // 2. valid frames of every kind: every truncation class, extension, and single-byte substitutions
        let reps = if a.thorough() { 40 } else { 3 };
        for k in KINDS.iter() { for rep in 0..reps {
            if let Some((f, _)) = gen_frame(&mut rng, k, compressed, 0, None) {
                one(f[..f.len() - 1].to_vec(), &mut st, &mut out, true);
                one(f[..3.min(f.len())].to_vec(), &mut st, &mut out, true);
                let mut e = f.clone(); let el = 1 + rng.below(9) as usize; e.extend(rng.bytes(el)); one(e, &mut st, &mut out, true);
                // every byte value in every enum / custom position; random flips elsewhere
                let mut off = 2;
                for (_, at) in k.fixed {
                    let w = width(at);
                    if matches!(at, Atom::Enum(_) | Atom::Custom(..)) { for v in 0..=255u8 { if off < f.len() { let mut g = f.clone(); g[off] = v; one(g, &mut st, &mut out, v % 2 == 0); } } }
                    off += w;
                }
                for _ in 0..8 { let mut g = f.clone(); let i = rng.below(g.len() as u64) as usize; g[i] ^= 1 << rng.below(8); one(g, &mut st, &mut out, true); }
                // hand-coded multi-byte fields: token strings over a class alphabet (ASCII digits, letters, '.', NUL, multi-byte UTF-8 letters /
                // numerics, a lone continuation byte, 0xFF), NUL-padded to the field width: every string of up to L tokens, then random ones
                let mut off = 2;
                for (_, at) in k.fixed {
                    let w = width(at);
                    if let Atom::Custom(c, _) = at { if w >= 3 && off + w <= f.len() && (rep == 0 || a.thorough()) {
                        let toks: &[&[u8]] = match c {
                            Custom::GameVersion => &[b"0", b"7", b".", b"A", b"k", "\u{e9}".as_bytes(), "\u{b2}".as_bytes(), "\u{663}".as_bytes(), "\u{4e2d}".as_bytes(), b"\xFF", b"-", b"\0", "\u{df}".as_bytes(), b"\xA9"],
                            _ => &[b"X", b"r", b"9", b"[", b"`", b"\0", b"\xFF", b" ", b"@", b"{"],
                        };
                        let maxl = if matches!(c, Custom::GameVersion) { if a.thorough() { 4 } else { 3 } } else { w.min(4) };
                        let mut idx: Vec<usize> = vec![];
                        loop {
                            let mut fld: Vec<u8> = idx.iter().flat_map(|i| toks[*i].iter().copied()).collect(); fld.resize(w, 0);
                            let mut g = f.clone(); g[off..off + w].copy_from_slice(&fld); one(g, &mut st, &mut out, true);
                            let mut kk = idx.len();
                            loop { if kk == 0 { idx = vec![0; idx.len() + 1]; break; } kk -= 1; if idx[kk] + 1 < toks.len() { idx[kk] += 1; for j in kk + 1..idx.len() { idx[j] = 0; } break; } }
                            if idx.len() > maxl { break; }
                        }
                        for _ in 0..200 { let n = 1 + rng.below(8) as usize; let mut fld: Vec<u8> = (0..n).flat_map(|_| toks[rng.below(toks.len() as u64) as usize].iter().copied()).collect(); fld.resize(w, 0); let mut g = f.clone(); g[off..off + w].copy_from_slice(&fld); one(g, &mut st, &mut out, true); }
                    } }
                    off += w;
                }
                // text fields holding names: letters whose upper- / lower-case form has a different UTF-8 length (Kelvin / Angstrom / Ohm signs,
                // dotted and dotless i, sharp s - all present in LFS's codepages), alone and next to the file-name endings LFS uses
                if rep == 0 || a.thorough() {
                    const ODD: [&[u8]; 9] = [b"", b"^J\x81\xf0", b"^T\xdd", b"^T\xfd", b"^K\xa7\xd9", b"^K\xa1\xca", b"\xdf", b"\xff", b"^E\xa5"];
                    const END: [&[u8]; 10] = [b"", b".spr", b".mpr", b".SPR", b".Mpr", b".lyt", b".set", b".pth", b".smx", b".txt"];
                    let mut slots: Vec<(usize, usize)> = vec![]; let mut off = 2;
                    for (_, at) in k.fixed { if let Atom::Text { n, raw: false, .. } = at { if off + n <= f.len() { slots.push((off, *n)); } } off += width(at); }
                    if let Tail::TextEof { .. } = k.tail { if f.len() > off { slots.push((off, f.len() - off)); } }
                    for (o, n) in slots { for odd in ODD { for end in END { for shape in 0..4 {
                        let mut t: Vec<u8> = vec![];
                        match shape { 0 => { t.extend_from_slice(odd); t.extend_from_slice(end); }, 1 => { t.push(b'x'); t.extend_from_slice(odd); t.extend_from_slice(end); }, 2 => { t.extend_from_slice(odd); t.push(b'x'); t.extend_from_slice(end); }, _ => { t.extend_from_slice(b"dir/"); t.extend_from_slice(odd); t.extend_from_slice(odd); t.extend_from_slice(end); } }
                        if t.is_empty() || t.len() > n { continue; }
                        let mut g = f.clone(); for x in g[o..o + n].iter_mut() { *x = 0; } g[o..o + t.len()].copy_from_slice(&t); one(g, &mut st, &mut out, shape == 1);
                    } } } }
                }
                // text fields: a codepage marker followed by every string of up to 3 class bytes (lead bytes of the double-byte codepages,
                // ASCII digits, caret, letter, 0x80 / 0xFF), ending exactly at the end of the field and ending at a NUL: the decoder's
                // left-to-right scan must never look past the text
                if rep == 0 || a.thorough() {
                    const MARK: [&[u8]; 6] = [b"^S", b"^J", b"^K", b"^H", b"^L", b"^8"];
                    const CLS: [u8; 10] = [0x81, 0xfe, 0xa1, 0xe0, b'0', b'9', b'^', b'a', 0x80, 0xff];
                    let full = matches!(k.name, "Mso" | "Cpr" | "Ism" | "Mst" | "Btn");
                    let mut slots: Vec<(usize, usize)> = vec![]; let mut off = 2;
                    for (_, at) in k.fixed { if let Atom::Text { n, raw: false, .. } = at { if off + n <= f.len() { slots.push((off, *n)); } } off += width(at); }
                    if let Tail::TextEof { .. } = k.tail { if f.len() > off { slots.push((off, f.len() - off)); } }
                    for (o, n) in slots {
                        let maxl = if full { 3 } else { 2 };
                        for mk in MARK { let mut idx: Vec<usize> = vec![];
                            loop {
                                let mut t: Vec<u8> = mk.to_vec(); t.extend(idx.iter().map(|i| CLS[*i]));
                                if t.len() <= n {
                                    // (a) the text ends at the end of the field
                                    let mut g = f.clone(); for x in g[o..o + n].iter_mut() { *x = b'a'; } g[o + n - t.len()..o + n].copy_from_slice(&t); one(g, &mut st, &mut out, idx.len() <= 1);
                                    // (b) the text ends at a NUL
                                    let mut g = f.clone(); for x in g[o..o + n].iter_mut() { *x = 0; } g[o..o + t.len()].copy_from_slice(&t); one(g, &mut st, &mut out, idx.len() <= 1);
                                }
                                let mut kk = idx.len();
                                loop { if kk == 0 { idx = vec![0; idx.len() + 1]; break; } kk -= 1; if idx[kk] + 1 < CLS.len() { idx[kk] += 1; for j in kk + 1..idx.len() { idx[j] = 0; } break; } }
                                if idx.len() > maxl { break; }
                            }
                        }
                    }
                }
                // size byte announcing less / more than the real content
                if f.len() > 8 { let mut g = f.clone(); g[0] = if compressed { 1 } else { 4 }; one(g, &mut st, &mut out, true); let mut h = f.clone(); h[0] = h[0].wrapping_sub(1); one(h, &mut st, &mut out, true); }
            }
        } }
        // frames of every kind with non-canonical but well-framed content (values above documented maxima, repeated list entries, dirty padding)
        for k in KINDS.iter() { for _ in 0..(if a.thorough() { 60 } else { 8 }) { if let Some((f, _)) = gen_frame(&mut rng, k, compressed, 2, None) { one(f, &mut st, &mut out, true); } } }
        // list kinds whose entries all repeat (peer-supplied lists are not sets)
        for k in KINDS.iter() { if let Tail::Words = k.tail { for n in [2usize, 3, 120] { let base = 2 + fixed_width(k.fixed); let mut f = vec![0u8; base + 4 * n]; f[1] = k.magic; f[3] = n as u8; for i in 0..n { f[base + 4 * i..base + 4 * i + 4].copy_from_slice(&[1, 0, 0, 127]); } if f.len() % 4 == 0 && f.len() <= if compressed { 1020 } else { 252 } { f[0] = if compressed { (f.len() / 4) as u8 } else { f.len() as u8 }; one(f, &mut st, &mut out, true); } } } }
        st.exhaustive.push(format!("every byte value 0..255 in the first byte of every enum-typed / hand-coded field of every kind ({} mode)", mode_tag(compressed)));
        // 3. random strings
        let n = if a.thorough() { 300_000 } else { 20_000 };
        for _ in 0..n { let len = match rng.below(4) { 0 => rng.below(8), 1 => rng.below(64), _ => rng.below(300) } as usize; let mut b = rng.bytes(len); if !b.is_empty() && rng.chance(1, 2) { b[0] = (len / if compressed { 4 } else { 1 }).min(255) as u8; } one(b, &mut st, &mut out, true); }
    }
    st.rule = "arbitrary buffers through the real Codec::decode under catch_unwind: every (size,type) header, truncations / extensions / bit flips / every enum byte value of valid frames of every kind, random strings; oracle: never panics, need-more leaves the buffer, exactly the announced frame (>= 4, <= buffer) is removed, framing error only for impossible lengths, bytes after the frame do not matter; distinct buffers of >= 4 bytes counted".into();
    st.sample("cls C 0003000000 -> frameerr 0".into());
    st.sample("cls C 0240000000090000 -> bad 8".into());
    // whatever hostile input went before: the codec has no memory - a plain frame decodes after all of the above exactly as it does on a fresh thread
    for compressed in [true, false] { for (ty, head) in [(12u8, vec![0u8, 0, 0, 0, 0]), (55, vec![0, 0, 1, 0, 0]), (14, vec![0, 0, 0, 0, 0]), (45, vec![0, 1, 0, 0, 0, 10, 10, 50, 20])] {
        let mut body = vec![ty, 7]; body.extend(&head); body.extend_from_slice(b"canary!\0"); while (body.len() + 1) % 4 != 0 { body.push(0); }
        let mut f = vec![if compressed { ((body.len() + 1) / 4) as u8 } else { (body.len() + 1) as u8 }]; f.extend(body);
        st.evaluations += 1;
        let here = cls_string(&decode_buf(compressed, &f)); let here_dbg = match decode_buf(compressed, &f) { Dec::Got(p, _) => format!("{:?}", p), d => cls_string(&d) };
        let f2 = f.clone();
        let fresh = std::thread::spawn(move || match decode_buf(compressed, &f2) { Dec::Got(p, _) => format!("{:?}", p), d => cls_string(&d) }).join().unwrap_or("thread panic".into());
        if here_dbg != fresh { st.fail(format!("[C04] after the inputs of this run the frame {} decodes to {} ({here}), on a fresh thread to {}: earlier input changed what a later frame decodes to", hex(&f), here_dbg.chars().take(120).collect::<String>(), fresh.chars().take(120).collect::<String>()), format!("canary {} {}", mode_tag(compressed), hex(&f))); }
    } }
    out.finish(&st);
}

// ---------------------------------------------------------------- C03 (encode side) and C11 (text fields)
fn enc_string(e: &Enc) -> String { match e { Enc::Ok(b) => format!("ok:{}", hex(b)), Enc::Err => "enc:E".into(), Enc::Panic => "enc:P".into() } }

/// expected byte range of the idx-th text field of a kind inside a frame: (offset, width) for fixed
/// fields, (offset, max, align) marker for the until-eof tail
fn text_slot(k: &Kind, idx: usize) -> Option<(usize, usize, Option<usize>)> {
    let mut off = 2; let mut i = 0;
    for (_, a) in k.fixed { if let Atom::Text { n, .. } = a { if i == idx { return Some((off, *n, None)); } i += 1; } off += width(a); }
    if let Tail::TextEof { max, align, .. } = k.tail { if i == idx { return Some((off, max, Some(align))); } }
    None
}

/// a generated frame of kind k that decodes and re-encodes to the identical bytes (a generated frame may hold values that do not,
/// e.g. a float NaN with a payload): the base for substitution sweeps that compare re-encodings.  None after 12 attempts.
pub fn stable_frame(rng: &mut Rng, k: &Kind, compressed: bool, rows: Option<usize>) -> Option<Vec<u8>> {
    for _ in 0..12 { if let Some((f, _)) = gen_frame(rng, k, compressed, 0, rows) { if let Dec::Got(p, n) = decode_buf(compressed, &f) { if n == f.len() && matches!(encode_p(compressed, &p), Enc::Ok(e) if e == f) { return Some(f); } } } }
    None
}

/// packets built through the typed API rather than by decoding (values no frame decodes to, histories of insert / remove / clear):
/// what is encoded must be one well-formed frame whose fixed-width fields sit where the layout puts them and whose count byte is
/// the number of elements that follow; nothing may panic
pub fn typed_api_checks(prop: &str, a: &Args, st: &mut Stats) {
    use insim::{identifiers::{ConnectionId, RequestId}, insim::{Ipb, Mal, Ver}};
    use insim_core::{game_version::GameVersion, vehicle::Vehicle};
    let mut rng = Rng::new(a.seed ^ 0x7A9E);
    // IS_VER: Version[8] Product[6] InSimVer Spare, whatever the version VALUE is (letters outside ASCII, huge numbers, long revisions)
    for major in [0.7f32, 0.04, 12.5, 1.0e10, 0.0] { for minor in ['F', 'z', '\u{e9}', '\u{ff26}', '\u{4e2d}'] { for patch in [None, Some(0usize), Some(12), Some(123_456_789)] {
        let v = Ver { reqi: RequestId(1), version: GameVersion { major, minor, patch }, product: "DEMO".into(), insimver: 9 };
        for compressed in [true, false] {
            st.evaluations += 1;
            let id = format!("ver {} {} {:x} {}", mode_tag(compressed), major.to_bits(), minor as u32, patch.map(|p| p.to_string()).unwrap_or("none".into()));
            match encode_p(compressed, &Packet::Ver(v.clone())) {
                Enc::Ok(b) => {
                    if let Some(w) = wellformed(compressed, &b, 2) { st.fail(format!("[{prop}] IS_VER with version {:?}: {w}", v.version), id.clone()); }
                    if b.len() != 20 || &b[12..16] != b"DEMO" || b[16] != 0 || b[17] != 0 || b[18] != 9 { st.fail(format!("[{prop}] IS_VER with version {:?}: the 8-byte version field pushes the following fields: frame {}", v.version, hex(&b)), id.clone()); }
                    // what was emitted must be THIS version (not a truncated or otherwise different one)
                    match decode_buf(compressed, &b) { Dec::Got(Packet::Ver(v2), _) => if v2.version != v.version && !(v2.version.major == v.version.major && v2.version.minor == v.version.minor.to_ascii_uppercase() && v2.version.patch.unwrap_or(0) == v.version.patch.unwrap_or(0)) { st.fail(format!("[{prop}] IS_VER with version {:?} is emitted as the different version {:?} (text {:?})", v.version, v2.version, String::from_utf8_lossy(&b[4..12])), id.clone()); }, Dec::Got(..) => {}, d => st.fail(format!("[{prop}] IS_VER with version {:?}: the encoder's own frame is not decoded: {}", v.version, cls_string(&d)), id.clone()) }
                },
                Enc::Err => {},
                Enc::Panic => st.fail(format!("[{prop}] IS_VER with version {:?} makes the encoder panic", v.version), id.clone()),
            }
        }
    } } }
    // the two `char` fields (ISI Prefix, SCH CharB) are one byte on the wire: a character that does not fit is either refused or costs exactly
    // its one byte - the frame stays one well-formed frame of the fixed size and no neighbouring field moves or changes
    for c in ['!', '\u{7f}', '\u{e9}', '\u{ff}', '\u{100}', '\u{141}', '\u{20ac}', '\u{ff01}', '\u{1f600}'] {
        use insim::insim::{Isi, IsiFlags, Sch, SchFlags};
        let isi = Isi { reqi: RequestId(7), udpport: 0x1234, flags: IsiFlags::LOCAL | IsiFlags::MCI, version: 9, prefix: c, interval: std::time::Duration::from_millis(500), admin: "adm".into(), iname: "name".into() };
        let sch = Sch { reqi: RequestId(7), charb: c, flags: SchFlags::SHIFT };
        for (name, p, ty, len, off) in [("IS_ISI Prefix", Packet::Isi(isi.clone()), 1u8, 44usize, 9usize), ("IS_SCH CharB", Packet::Sch(sch.clone()), 6, 8, 4)] { for compressed in [true, false] {
            st.evaluations += 1;
            let id = format!("charfield {} {} {:x}", mode_tag(compressed), ty, c as u32);
            let base = match encode_p(compressed, &match &p { Packet::Isi(i) => Packet::Isi(Isi { prefix: 'A', ..i.clone() }), Packet::Sch(s) => Packet::Sch(Sch { charb: 'A', ..s.clone() }), o => o.clone() }) { Enc::Ok(b) => b, _ => { st.fail(format!("[{prop}] {name} = 'A' is not encoded"), id.clone()); continue; } };
            match encode_p(compressed, &p) {
                Enc::Ok(b) => {
                    if let Some(w) = wellformed(compressed, &b, ty) { st.fail(format!("[{prop}] {name} = U+{:04X}: {w}", c as u32), id.clone()); }
                    else if b.len() != len || b[..off] != base[..off] || b[off + 1..] != base[off + 1..] { st.fail(format!("[{prop}] {name} = U+{:04X} disturbs its neighbours: frame {} but with 'A' {}", c as u32, hex(&b), hex(&base)), id.clone()); }
                    else if (c as u32) < 256 && b[off] != c as u32 as u8 { st.fail(format!("[{prop}] {name} = U+{:04X} is written as byte {:#04x}", c as u32, b[off]), id.clone()); }
                },
                Enc::Err => if (c as u32) < 256 { st.fail(format!("[{prop}] {name} = U+{:04X} (representable in the byte) is refused", c as u32), id.clone()); },
                Enc::Panic => st.fail(format!("[{prop}] {name} = U+{:04X} makes the encoder panic", c as u32), id.clone()),
            }
        } }
    }
    // IS_BTN with a type-in caption: Text = NUL caption NUL text (InSim.txt), TypeIn = maximum characters + 128 to initialise the dialog
    // with the text.  Whatever TypeIn is and whatever the lengths are, the frame is 12 + the text NUL-padded to a multiple of 4 (at most 240)
    {
        use insim::insim::Btn;
        for typein in [0u8, 1, 31, 95, 127, 128, 129, 223, 255] { for cap in [0usize, 1, 2, 3, 5] { for tl in [0usize, 1, 2, 3, 4, 5, 6, 7, 8, 120, 230, 233, 234, 235, 236, 237, 238, 239, 240, 250] {
            let text = if cap == 0 { "t".repeat(tl) } else { format!("\0{}\0{}", "c".repeat(cap - 1), "t".repeat(tl)) };
            let mut b = Btn::default(); b.reqi = RequestId(1); b.typein = typein; b.text = text.clone(); b.w = 10; b.h = 5;
            for compressed in [true, false] {
                st.evaluations += 1;
                let id = format!("btn {} {typein} {cap} {tl}", mode_tag(compressed));
                let n = text.len();
                match encode_p(compressed, &Packet::Btn(b.clone())) {
                    Enc::Ok(f) => {
                        if let Some(w) = wellformed(compressed, &f, 45) { st.fail(format!("[{prop}] IS_BTN with TypeIn {typein} and a {n}-byte text (caption {cap}): {w}"), id.clone()); }
                        else { let want = 12 + ((n + 3) / 4 * 4).min(240); if f.len() != want { st.fail(format!("[{prop}] IS_BTN with TypeIn {typein} and a {n}-byte text (caption {cap}) is {} bytes, expected {want}", f.len()), id.clone()); } }
                    },
                    Enc::Err => {},
                    Enc::Panic => st.fail(format!("[{prop}] IS_BTN with TypeIn {typein} and a {n}-byte text (caption {cap}) makes the encoder panic"), id.clone()),
                }
            }
        } } }
    }
    // IS_MSO built by hand with a player-name prefix (textstart > 0) whose encoded length differs from its UTF-8 length: the message field
    // is the encoded message NUL-padded to a multiple of 4 and cut at 128 bytes, TextStart is the ENCODED length of the name
    {
        use insim::insim::{Mso, MsoUserType};
        use insim_core::string::codepages::to_lossy_bytes;
        for name in ["^7Player \u{11b} ^7: ", "^7\u{418}\u{433}\u{43e}\u{440}\u{44c} ^7: ", "abc: ", "\u{65e5}\u{672c} : ", ""] { for tl in [0usize, 1, 50, 100, 108, 109, 110, 111, 112, 113, 114, 115, 116, 120, 127, 128, 129, 140] {
            let msg = format!("{name}{}", "x".repeat(tl));
            let m = Mso { reqi: RequestId(0), ucid: ConnectionId(3), plid: insim::identifiers::PlayerId(4), usertype: MsoUserType::User, textstart: name.len() as u8, msg: msg.clone() };
            for compressed in [true, false] {
                st.evaluations += 1;
                let id = format!("mso {} {} {tl}", mode_tag(compressed), hex(name.as_bytes()));
                let mut want = to_lossy_bytes(&msg).to_vec(); while want.len() % 4 != 0 { want.push(0); } want.truncate(128);
                match encode_p(compressed, &Packet::Mso(m.clone())) {
                    Enc::Ok(b) => {
                        if let Some(w) = wellformed(compressed, &b, 11) { st.fail(format!("[{prop}] IS_MSO with a {}-byte name and {tl} bytes of text: {w}", name.len()), id.clone()); }
                        if b.len() > 136 { st.fail(format!("[{prop}] IS_MSO with a {}-byte name and {tl} bytes of text: the message occupies {} bytes, more than its maximum 128", name.len(), b.len() - 8), id.clone()); }
                        else if b[8..] != want[..] { st.fail(format!("[{prop}] IS_MSO with a {}-byte name and {tl} bytes of text: the message field holds {} but the encoded message padded and cut is {}", name.len(), hex(&b[8..]), hex(&want)), id.clone()); }
                        // ... and read back: the message is the whole text field up to its first NUL, however long the name in front of the text is
                        if b.len() >= 8 { match decode_buf(compressed, &b) {
                            Dec::Got(Packet::Mso(m2), _) => { let field = &b[8..]; let end = field.iter().position(|x| *x == 0).unwrap_or(field.len()); let want_msg = insim_core::string::codepages::to_lossy_string(&field[..end]).to_string();
                                if m2.msg != want_msg { st.fail(format!("[{prop}] IS_MSO with a {}-byte name and {tl} bytes of text reads back as a {}-byte message, the text field holds {} bytes: ...{:?} instead of ...{:?}", name.len(), m2.msg.len(), want_msg.len(), m2.msg.chars().rev().take(8).collect::<String>().chars().rev().collect::<String>(), want_msg.chars().rev().take(8).collect::<String>().chars().rev().collect::<String>()), id.clone()); } },
                            d => st.fail(format!("[{prop}] the IS_MSO just encoded does not decode: {}", cls_string(&d)), id.clone()),
                        } }
                        if b.len() >= 8 && b[7] as usize != to_lossy_bytes(name).len() { st.fail(format!("[{prop}] IS_MSO TextStart is {} but the encoded name is {} bytes", b[7], to_lossy_bytes(name).len()), id.clone()); }
                    },
                    Enc::Err => st.fail(format!("[{prop}] IS_MSO with a {}-byte name and {tl} bytes of text is refused", name.len()), id.clone()),
                    Enc::Panic => st.fail(format!("[{prop}] IS_MSO with a {}-byte name and {tl} bytes of text makes the encoder panic", name.len()), id.clone()),
                }
            }
        } }
    }
    // IS_MAL / IS_IPB: any history of insert / remove / clear, then encode: NumM / NumB = the number of 4-byte entries that follow
    for rep in 0..(if a.thorough() { 4000 } else { 400 }) {
        let mut mal = Mal::default(); mal.reqi = RequestId(9); mal.ucid = ConnectionId(12);
        let mut ipb = Ipb::default(); ipb.reqi = RequestId(9);
        let mut ids: Vec<u32> = vec![]; let mut hist = String::new();
        for _ in 0..rng.range(1, 12) {
            match rng.below(8) {
                0..=4 => { let id = 0x0100_0000 | (rng.next() as u32 & 0x00ff_ffff) | ((rng.below(200) as u32 + 1) << 24); ids.push(id); let _ = mal.insert(Vehicle::Mod(id)); let _ = ipb.insert(std::net::Ipv4Addr::from(id)); hist.push('i'); },
                5 | 6 => { if !ids.is_empty() { let k = rng.below(ids.len() as u64) as usize; let id = ids.remove(k); let _ = mal.remove(&Vehicle::Mod(id)); let _ = ipb.remove(&std::net::Ipv4Addr::from(id)); hist.push('r'); } },
                _ => { mal.clear(); ipb.clear(); ids.clear(); hist.push('c'); },
            }
        }
        ids.sort(); ids.dedup();
        for (name, p, cnt_off, first) in [("IS_MAL", Packet::Mal(mal.clone()), 3usize, 8usize), ("IS_IPB", Packet::Ipb(ipb.clone()), 3, 8)] { for compressed in [true, false] {
            st.evaluations += 1;
            let id = format!("sethist {name} {} {} {hist}", mode_tag(compressed), a.seed ^ rep);
            match encode_p(compressed, &p) {
                Enc::Ok(b) => {
                    if let Some(w) = wellformed(compressed, &b, b[1]) { st.fail(format!("[{prop}] {name} after the history {hist}: {w}"), id.clone()); }
                    let entries = (b.len() - first) / 4;
                    if b[cnt_off] as usize != entries || entries != ids.len() { st.fail(format!("[{prop}] {name} after the history {hist} ({} entries in the set): count byte {} but {} entries follow", ids.len(), b[cnt_off], entries), id.clone()); }
                    if !matches!(decode_buf(compressed, &b), Dec::Got(..)) { st.fail(format!("[{prop}] {name} after the history {hist}: the encoder's own frame does not decode"), id.clone()); }
                },
                Enc::Err => st.fail(format!("[{prop}] {name} with {} entries after the history {hist} is refused", ids.len()), id.clone()),
                Enc::Panic => st.fail(format!("[{prop}] {name} after the history {hist} makes the encoder panic"), id.clone()),
            }
        } }
    }
    st.bump("typed-API packets (IS_VER version values, IS_MAL / IS_IPB insert-remove-clear histories)");
}

/// packets of every kind, encodable and not (too many elements: refused after part of the packet was written; a duration beyond
/// its field: refused mid-packet), in a fixed order
fn codec_pool() -> Vec<Packet> {
    let mut pool: Vec<Packet> = vec![];
    for d in crate::gen::kinds::default_packets().iter() {
        pool.push(d.clone());
        for k in [1usize, 3, 250, 255] { let mut p = d.clone(); if crate::gen::glue::vec_resize(&mut p, k) { pool.push(p); } }
        for idx in 0..crate::gen::glue::dur_fields(d) { let mut p = d.clone(); let _ = crate::gen::glue::set_dur(&mut p, idx, std::time::Duration::from_secs(1 << 40)); pool.push(p); }
    }
    pool
}

pub fn run_c03(a: &Args) {
    if let Some(r) = &a.replay { if r.starts_with("ver ") || r.starts_with("sethist ") || r.starts_with("mso ") {
        let mut st = Stats::default(); typed_api_checks("C03", a, &mut st);
        match st.failures.iter().find(|f| f.2 == *r) { Some(f) => { println!("FAIL {}", f.1); std::process::exit(1) }, None => { println!("PASS (typed-API case `{r}` holds)"); std::process::exit(0) } }
    } }
    let mut rng = Rng::new(a.seed);
    let defaults = crate::gen::kinds::default_packets();
    let run_vec = |compressed: bool, ki: usize, k: usize, st: &mut Stats| -> Option<(String, String)> {
        let mut p = defaults[ki].clone();
        if !crate::gen::glue::vec_resize(&mut p, 1) { return None; }
        let base = match encode_p(compressed, &p) { Enc::Ok(b) => b, _ => { st.fail(format!("[C03] a {} with one element cannot be encoded", KINDS[ki].name), format!("vec {} {} 1", mode_tag(compressed), ki)); return None } };
        let _ = crate::gen::glue::vec_resize(&mut p, k);
        let e = encode_p(compressed, &p);
        let id = format!("vec {} {} {}", mode_tag(compressed), ki, k);
        let kind = &KINDS[ki];
        let (ew, padm, padk) = match kind.tail { Tail::Vec { elt, padm, padk } => (fixed_width(elt), padm, padk), _ => (4, 1, 0) };
        let want_len = 2 + fixed_width(kind.fixed) + k * ew + (k % padm) * padk;
        let max = if compressed { 1020 } else { 255 };
        match &e {
            Enc::Ok(b) => {
                if let Some(w) = wellformed(compressed, b, kind.magic) { st.fail(format!("[C03] {} with {k} elements: {w}", kind.name), id.clone()); }
                if b.len() != want_len { st.fail(format!("[C03] {} with {k} elements encodes to {} bytes, layout says {want_len}", kind.name, b.len()), id.clone()); }
            },
            _ => if want_len <= max && k <= 255 && want_len % 4 == 0 { st.fail(format!("[C03] {} with {k} elements ({want_len} bytes) is refused although it fits", kind.name), id.clone()); },
        }
        Some((format!("vecrep {} {} {}", mode_tag(compressed), hex(&base), k), enc_string(&e)))
    };
    let run_text = |compressed: bool, ki: usize, idx: usize, text: &str, st: &mut Stats| -> Option<(String, String)> {
        let mut p = defaults[ki].clone();
        let base = match encode_p(compressed, &p) { Enc::Ok(b) => b, _ => return None };
        if !crate::gen::glue::set_text(&mut p, idx, text) { return None; }
        let e = encode_p(compressed, &p);
        let id = format!("text {} {} {} {}", mode_tag(compressed), ki, idx, hex(text.as_bytes()));
        let kind = &KINDS[ki];
        match &e {
            Enc::Ok(b) => { if let Some(w) = wellformed(compressed, b, kind.magic) { st.fail(format!("[C03] {} with a {}-byte text in field {idx}: {w}", kind.name, text.len()), id.clone()); } },
            Enc::Err => st.fail(format!("[C03] {} refuses a {}-byte text (texts are truncated, never refused)", kind.name, text.len()), id.clone()),
            Enc::Panic => st.fail(format!("[C03] {} with a {}-byte text in field {idx} makes the encoder panic", kind.name, text.len()), id.clone()),
        }
        Some((format!("settext {} {} {} {}", mode_tag(compressed), hex(&base), idx, hex(text.as_bytes())), enc_string(&e)))
    };
    if let Some(r) = &a.replay { if let Some(rest) = r.strip_prefix("codecpair ") {
        let t: Vec<&str> = rest.split_whitespace().collect(); let compressed = t[0] == "C"; let pool = codec_pool();
        let codec = Codec::new(mode_of(compressed)); let mut ok = true;
        for ix in [t[1].parse::<usize>().unwrap(), t[2].parse::<usize>().unwrap()] {
            let p = &pool[ix];
            let got = match guard(|| codec.encode(p)) { None => Enc::Panic, Some(Ok(b)) => Enc::Ok(b.to_vec()), Some(Err(_)) => Enc::Err };
            let want = encode_fresh(compressed, p);
            println!("pool[{ix}]: long-lived codec {} / fresh codec {}", enc_string(&got), enc_string(&want));
            if enc_string(&got) != enc_string(&want) { ok = false; }
        }
        if ok { println!("PASS"); std::process::exit(0) } else { println!("FAIL [C03] the frame depends on what the codec encoded before"); std::process::exit(1) }
    } }
    if let Some(r) = &a.replay {
        let t: Vec<&str> = r.split_whitespace().collect(); let mut st = Stats::default();
        let o = if t[0] == "vec" { run_vec(t[1] == "C", t[2].parse().unwrap(), t[3].parse().unwrap(), &mut st) } else { let txt = String::from_utf8(unhex(t[4])).unwrap(); run_text(t[1] == "C", t[2].parse().unwrap(), t[3].parse().unwrap(), &txt, &mut st) };
        if st.failures_total > 0 { println!("FAIL {}", st.failures[0].1); std::process::exit(1) } else { println!("PASS {:?}", o.map(|x| x.1)); return }
    }
    let mut st = Stats::default(); let mut out = Out::new(&a.out);
    for compressed in [true, false] {
        for ki in 0..KINDS.len() {
            // element counts 0..=255 (all of them): odd, even, protocol maxima and beyond
            if matches!(KINDS[ki].tail, Tail::Vec { .. }) {
                for k in 0..=255usize { if let Some((c, i)) = run_vec(compressed, ki, k, &mut st) { st.evaluations += 1; st.distinct_nontrivial += 1; st.bump(&format!("vec:{}", i.split(':').next().unwrap())); out.case(&c, &i); } }
                st.exhaustive.push(format!("{}: every element count 0..=255 ({} mode)", KINDS[ki].name, mode_tag(compressed)));
            }
            // texts of every length 0..2x the field width (+2)
            for idx in 0..crate::gen::glue::text_fields(&defaults[ki]) {
                let Some((_, n, _)) = text_slot(&KINDS[ki], idx).or(if KINDS[ki].name == "Mso" { Some((8, 128, Some(4))) } else { None }) else { continue };
                let step = if a.thorough() || n <= 32 { 1 } else { 3 };
                let mut len = 0;
                while len <= 2 * n + 2 {
                    let text: String = (0..len).map(|i| (b'a' + (i % 26) as u8) as char).collect();
                    if let Some((c, i)) = run_text(compressed, ki, idx, &text, &mut st) { st.evaluations += 1; if len > 0 { st.distinct_nontrivial += 1; } st.bump(&format!("text:{}", i.split(':').next().unwrap())); out.case(&c, &i); }
                    len += if len + 8 >= n && len <= n + 8 { 1 } else { step };
                }
                // double-byte characters, markers and carets starting at every offset around the end of the field (the cut is at a byte offset)
                for seq in ["\u{65e5}\u{672c}", "\u{448}\u{65e5}", "^^", "^J", "\u{ff8f}\u{ff8f}", "\u{e9}\u{65e5}"] { for p0 in n.saturating_sub(6)..=n + 2 {
                    let mut text: String = (0..p0).map(|i| (b'a' + (i % 26) as u8) as char).collect(); text.push_str(seq); text.push_str("xyz");
                    let _ = run_text(compressed, ki, idx, &text, &mut st); st.evaluations += 1; st.bump("text:multi-byte sequence straddling the end of the field");
                } }
            }
        }
    }
    // packets obtained by decoding arbitrary accepted frames never make the encoder abort (uses the C01 generator, dirt 2)
    for compressed in [true, false] { for k in KINDS.iter() { for _ in 0..(if a.thorough() { 200 } else { 12 }) {
        if let Some((f, _)) = gen_frame(&mut rng, k, compressed, 2, None) {
            st.evaluations += 1;
            if let Dec::Got(p, _) = decode_buf(compressed, &f) { match encode_p(compressed, &p) { Enc::Panic => st.fail(format!("[C03] a {} obtained by decoding makes the encoder panic", k.name), format!("frame {} {}", mode_tag(compressed), hex(&f))), Enc::Ok(b) => { if let Some(w) = wellformed(compressed, &b, k.magic) { st.fail(format!("[C03] re-encoded {}: {w}", k.name), format!("frame {} {}", mode_tag(compressed), hex(&f))); } }, Enc::Err => {} } }
        }
    } } }
    // (replay: `codecpair <mode> <i> <j>` = pool[i] then pool[j] on one codec)
    typed_api_checks("C03", a, &mut st);
    // one long-lived codec, as a connection has: the frame of a packet must not depend on what was encoded (or refused) before it.
    // Sequences of refused and accepted packets of every kind on ONE codec, each result compared with a codec created for that call.
    for compressed in [true, false] {
        let codec = Codec::new(mode_of(compressed));
        let pool = codec_pool();
        let nseq = if a.thorough() { 4000 } else { 600 };
        let mut refused = 0u64; let mut after_refused = 0u64; let mut last_refused = false; let mut prev_pi = 0usize;
        for i in 0..nseq * 8 {
            let pi = rng.below(pool.len() as u64) as usize; let p = pool[pi].clone();
            let got = match guard(|| codec.encode(&p)) { None => Enc::Panic, Some(Ok(b)) => Enc::Ok(b.to_vec()), Some(Err(_)) => Enc::Err };
            let want = encode_fresh(compressed, &p);
            st.evaluations += 1;
            let same = match (&got, &want) { (Enc::Ok(a), Enc::Ok(b)) => a == b, (Enc::Err, Enc::Err) | (Enc::Panic, Enc::Panic) => true, _ => false };
            if !same { st.fail(format!("[C03] call #{i} on a long-lived codec ({} mode{}): {} but a fresh codec gives {} for the same {:?}", mode_tag(compressed), if last_refused { ", right after a refused packet" } else { "" }, enc_string(&got), enc_string(&want), std::mem::discriminant(&p)), format!("codecpair {} {} {}", mode_tag(compressed), prev_pi, pi)); break; }
            if let Enc::Ok(b) = &got { if let Some(w) = wellformed(compressed, b, b.get(1).copied().unwrap_or(0)) { st.fail(format!("[C03] call #{i} on a long-lived codec: {w}"), format!("codecpair {} {} {}", mode_tag(compressed), prev_pi, pi)); break; } if last_refused { after_refused += 1; } }
            last_refused = matches!(got, Enc::Err); if last_refused { refused += 1; }
            prev_pi = pi;
        }
        st.notes.push(format!("long-lived codec ({} mode): {} calls, {} refused, {} accepted right after a refusal", mode_tag(compressed), nseq * 8, refused, after_refused));
    }
    st.rule = "typed packets built through regenerated glue on the real Codec::encode: every element count 0..=255 for every counted-vector kind, texts of every length 0..2N+2 in every text field of every text-bearing kind, packets obtained by decoding generated frames; oracle = the C03 predicate (length multiple of 4 within the mode's limit, size byte, type byte, count byte = elements, own output decodes completely); non-trivial = non-empty text / any vector case".into();
    st.sample("vecrep C <Nlp frame, 1 element> 3 -> ok:06250103.. (24 bytes)".into());
    out.finish(&st);
}

/// C11: the bytes of each text field inside the real encoded frame
fn raw_next_frame(compressed: bool) -> Vec<u8> { if compressed { vec![1, 3, 2, 3] } else { vec![4, 3, 2, 3] } }
pub fn run_c11(a: &Args) {
    if let Some(r) = &a.replay { if r.starts_with("ver ") || r.starts_with("sethist ") || r.starts_with("mso ") {
        let mut st = Stats::default(); typed_api_checks("C11", a, &mut st);
        match st.failures.iter().find(|f| f.2 == *r) { Some(f) => { println!("FAIL {}", f.1); std::process::exit(1) }, None => { println!("PASS (typed-API case `{r}` holds)"); std::process::exit(0) } }
    } }
    use insim_core::string::codepages::to_lossy_bytes;
    let defaults = crate::gen::kinds::default_packets();
    const MUST_TERMINATE: [&str; 4] = ["Mst", "Msx", "Msl", "Mtc"];
    let check = |compressed: bool, ki: usize, idx: usize, text: &str, st: &mut Stats| -> Option<(String, String)> {
        let kind = &KINDS[ki];
        let mut p = defaults[ki].clone();
        let base = match encode_p(compressed, &p) { Enc::Ok(b) => b, _ => return None };
        if !crate::gen::glue::set_text(&mut p, idx, text) { return None; }
        let id = format!("{} {} {} {}", mode_tag(compressed), ki, idx, hex(text.as_bytes()));
        let (off, n, align) = text_slot(kind, idx)?;
        let raw = matches!(kind.fixed.iter().filter(|(_, a)| matches!(a, Atom::Text { .. })).nth(idx), Some((_, Atom::Text { raw: true, .. })));
        // does the field use the NUL-terminated writer (regenerated from the source)?
        let z = match align { None => matches!(kind.fixed.iter().filter(|(_, a)| matches!(a, Atom::Text { .. })).nth(idx), Some((_, Atom::Text { z: true, .. }))), Some(_) => matches!(kind.tail, Tail::TextEof { z: true, .. }) };
        let room = if z { n - 1 } else { n };
        let encoded: Vec<u8> = if raw { text.as_bytes().to_vec() } else { to_lossy_bytes(text).to_vec() };
        let e = encode_p(compressed, &p);
        if let Enc::Ok(b) = &e {
            let field: &[u8] = match align { None => { if b.len() < off + n { st.fail(format!("[C11] {} frame too short for its {n}-byte text field", kind.name), id.clone()); return None; } &b[off..off + n] }, Some(_) => &b[off..] };
            match align {
                None => {
                    // exactly N bytes: the encoded text truncated to N, NUL-padded
                    let mut want = encoded.clone(); want.truncate(room); want.resize(n, 0);
                    if field != &want[..] { st.fail(format!("[C11] {} field {idx} holds {} but the encoded text truncated to {room} and NUL-padded to {n} is {}", kind.name, hex(field), hex(&want)), id.clone()); }
                },
                Some(al) => {
                    if field.len() % al != 0 { st.fail(format!("[C11] {} variable text occupies {} bytes, not a multiple of {al}", kind.name, field.len()), id.clone()); }
                    if field.len() > n { st.fail(format!("[C11] {} variable text occupies {} bytes, more than its maximum {n}", kind.name, field.len()), id.clone()); }
                    let keep = encoded.len().min(room);
                    if field.len() < keep || field[..keep] != encoded[..keep] || field[keep..].iter().any(|b| *b != 0) { st.fail(format!("[C11] {} variable text is not the encoded text NUL-padded", kind.name), id.clone()); }
                    let want_len = if z { ((keep + 1 + al - 1) / al * al).min(n) } else { ((encoded.len() + al - 1) / al * al).min(n) };
                    if field.len() != want_len { st.fail(format!("[C11] {} variable text of {} encoded bytes occupies {} bytes, expected {want_len}", kind.name, encoded.len(), field.len()), id.clone()); }
                },
            }
            if MUST_TERMINATE.contains(&kind.name) && field.last() != Some(&0) {
                // known class: the encoded text reaches the field width (fixed) / a multiple of 4 or the maximum (aligned)
                let in_class = !z && match align { None => encoded.len() >= n, Some(al) => encoded.len() % al == 0 || encoded.len() >= n };
                st.fail_class(if in_class { "c11-no-terminator-at-full-width" } else { "" }, format!("[C11] {} text field does not end in NUL for a {}-byte text", kind.name, encoded.len()), id.clone());
            }
            // decoding stops at the first NUL: the same frame with every byte after the first NUL of the field overwritten
            // by non-NUL bytes (what a peer reusing a buffer sends) must decode to the same text
            if text.is_ascii() && !text.is_empty() && !text.contains('^') && !text.contains('Z') {
                let fend = match align { None => off + n, Some(_) => b.len() };
                if let Some(z) = b[off..fend].iter().position(|x| *x == 0) {
                    if off + z + 1 < fend {
                        let mut dirty = b.clone(); for x in dirty[off + z + 1..fend].iter_mut() { *x = b'Z'; }
                        match decode_buf(compressed, &dirty) {
                            Dec::Got(p3, _) => { let d = format!("{:?}", p3); if !d.contains(&format!("{:?}", text)) || d.contains("ZZ") || d.contains("\\0Z") { st.fail(format!("[C11] {} field {idx}: decoding does not stop at the first NUL: bytes after it show up in the text ({})", kind.name, d.chars().take(160).collect::<String>()), format!("{id} dirty")); } },
                            _ => st.fail(format!("[C11] {} field {idx}: a frame with bytes after the terminating NUL does not decode", kind.name), format!("{id} dirty")),
                        }
                    }
                }
            }
            // ... also when the text before the NUL ends in the first half of a double-byte character (a name cut in mid-character): the NUL
            // ends the text, it is not the character's second half
            if text == "AB" { let fend = match align { None => off + n, Some(_) => b.len() }; if fend - off >= 10 { for mk in [&b"^J"[..], &b"^S"[..], &b"^K"[..], &b"^H"[..]] { for lead in [0x81u8, 0x9f, 0xe0, 0xfe] {
                let mut dirty = b.clone(); let mut t: Vec<u8> = b"ab".to_vec(); t.extend_from_slice(mk); t.push(lead); t.push(0); while off + t.len() < fend { t.push(b'Z'); }
                dirty[off..fend].copy_from_slice(&t[..fend - off]);
                match decode_buf(compressed, &dirty) { Dec::Got(p3, _) => { let d = format!("{:?}", p3); if d.contains("ZZ") { st.fail(format!("[C11] {} field {idx}: the text ab{}<{lead:02x}> NUL residue: decoding runs past the NUL: {}", kind.name, String::from_utf8_lossy(mk), d.chars().take(140).collect::<String>()), format!("dirty {} {off} {fend} {}", mode_tag(compressed), hex(&dirty))); } }, _ => {} }
            } } } }
            if let Dec::Got(p2, _) = decode_buf(compressed, b) { let d = format!("{:?}", p2); if text.is_ascii() && !text.is_empty() && !text.contains('^') && encoded.len() <= n.saturating_sub(1) && !d.contains(&format!("{:?}", text)) { st.fail(format!("[C11] {} decoded text differs from the written ASCII text", kind.name), id.clone()); } }
            // the text ends where its frame ends: with another frame right behind it in the receive buffer (a text that fills its frame has no
            // NUL to stop at) the decoded packet is the same and exactly the frame is consumed
            { let mut two = b.clone(); two.extend_from_slice(&raw_next_frame(compressed)); two.extend_from_slice(b"tail");
              match (decode_buf(compressed, b), decode_buf(compressed, &two)) {
                  (Dec::Got(p1, n1), Dec::Got(p2, n2)) => if n1 != n2 || format!("{:?}", p1) != format!("{:?}", p2) { st.fail(format!("[C11] {} field {idx}: with another frame behind it in the buffer the frame decodes differently ({} bytes consumed instead of {}): {:?}", kind.name, n2, n1, format!("{:?}", p2).chars().take(200).collect::<String>()), format!("{id} next")); },
                  (d1, d2) => if cls_string(&d1).split(' ').next() != cls_string(&d2).split(' ').next() { st.fail(format!("[C11] {} field {idx}: with another frame behind it in the buffer the outcome changes from {} to {}", kind.name, cls_string(&d1), cls_string(&d2)), format!("{id} next")); },
              } }
        } else { st.fail(format!("[C11] {} with a {}-byte text does not encode", kind.name, encoded.len()), id.clone()); }
        if text.is_ascii() { Some((format!("settext {} {} {} {}", mode_tag(compressed), hex(&base), idx, hex(text.as_bytes())), enc_string(&e))) } else { None }
    };
    if let Some(r) = &a.replay { if let Some(rest) = r.strip_prefix("dirty ") {
        let t: Vec<&str> = rest.split_whitespace().collect(); let compressed = t[0] == "C"; let o: usize = t[1].parse().unwrap(); let end: usize = t[2].parse().unwrap(); let dirty = unhex(t[3]);
        let z = dirty[o..end].iter().position(|x| *x == 0).unwrap_or(end - o);
        let mut clean = dirty.clone(); for x in clean[(o + z + 1).min(end)..end].iter_mut() { *x = 0; }
        let (dc, dd) = (decode_buf(compressed, &clean), decode_buf(compressed, &dirty));
        let same = match (&dc, &dd) { (Dec::Got(p, _), Dec::Got(q, _)) => format!("{:?}", p) == format!("{:?}", q), (Dec::Bad(_), Dec::Bad(_)) => true, _ => false };
        if same { println!("PASS"); std::process::exit(0) } else { println!("FAIL [C11] bytes after the first NUL change the decoded packet: {} vs {}", cls_string(&dd), cls_string(&dc)); std::process::exit(1) } } }
    if let Some(r) = &a.replay {
        let t: Vec<&str> = r.split_whitespace().collect(); let mut st = Stats::default();
        let txt = String::from_utf8(unhex(t[3])).unwrap();
        let _ = check(t[0] == "C", t[1].parse().unwrap(), t[2].parse().unwrap(), &txt, &mut st);
        if st.failures_total > 0 { println!("FAIL {} [{}]", st.failures[0].1, st.failures[0].0); std::process::exit(1) } else { println!("PASS"); return }
    }
    let mut st = Stats::default(); let mut out = Out::new(&a.out);
    let multi = ["é", "ě", "ш", "日", "ﾏ", "ώ"];
    for compressed in [true, false] { for ki in 0..KINDS.len() { for idx in 0..crate::gen::glue::text_fields(&defaults[ki]) {
        let Some((_, n, _)) = text_slot(&KINDS[ki], idx) else { continue };
        st.bump(&format!("width:{n}"));
        let step = if a.thorough() || n <= 32 { 1 } else { 5 };
        let mut len = 0;
        while len <= 2 * n {
            let text: String = (0..len).map(|i| (b'A' + (i % 26) as u8) as char).collect();
            if let Some((c, i)) = check(compressed, ki, idx, &text, &mut st) { out.case(&c, &i); }
            st.evaluations += 1; st.distinct_nontrivial += 1; st.bump(&format!("len_mod4:{}", len % 4));
            // multi-byte / multi-codepage text whose encoded length differs from its character count
            if len > 0 && (len % 3 == 0 || len + 3 >= n && len <= n + 3) {
                let m = multi[len % multi.len()];
                let t2: String = (0..len).map(|i| if i % 4 == 1 { m.to_string() } else { ((b'a' + (i % 26) as u8) as char).to_string() }).collect();
                let _ = check(compressed, ki, idx, &t2, &mut st); st.evaluations += 1; st.bump("multibyte");
            }
            len += if len + 6 >= n && len <= n + 6 { 1 } else { step };
        }
        // two-byte sequences (escaped caret, codepage markers, colour marker, double-byte characters behind a marker) and a lone
        // caret starting at every offset around the cut: the cut is at a byte offset, whatever it falls into
        for seq in ["^^", "^J", "^G", "^8", "^L", "^", "^^^^", "\u{65e5}", "\u{448}\u{65e5}", "\u{e9}^^"] {
            for p0 in n.saturating_sub(6)..=n + 1 {
                let mut text: String = (0..p0).map(|i| (b'A' + (i % 26) as u8) as char).collect();
                text.push_str(seq); text.push_str("BCDE");
                if let Some((c, i)) = check(compressed, ki, idx, &text, &mut st) { out.case(&c, &i); }
                st.evaluations += 1; st.bump("sequence straddling the cut");
            }
        }
        // embedded NUL: decoding stops at the first NUL
        let _ = check(compressed, ki, idx, "ab", &mut st);
    } } }
    // decoding stops at the first NUL whatever the OTHER fields of the packet hold: frames of every text-bearing kind with all fields
    // random (C01 generator), each text slot (a) as generated, (b) emptied (first byte NUL); every byte after the slot's first NUL
    // overwritten with non-NUL bytes must not change the decoded packet
    {
        let mut rng = Rng::new(a.seed ^ 0xC11);
        let mut dirty_cases = 0u64;
        for compressed in [true, false] { for k in KINDS.iter() {
            let mut slots: Vec<(usize, Option<usize>)> = vec![]; let mut off = 2;
            for (_, at) in k.fixed { if let Atom::Text { n, raw: false, .. } = at { slots.push((off, Some(*n))); } off += width(at); }
            if let Tail::TextEof { .. } = k.tail { slots.push((off, None)); }
            if slots.is_empty() { continue; }
            for _ in 0..(if a.thorough() { 120 } else { 16 }) {
                let Some((f, _)) = gen_frame(&mut rng, k, compressed, 0, None) else { continue };
                for (o, n) in &slots { let end = match n { Some(n) => o + n, None => f.len() }; if end > f.len() || *o >= end { continue; }
                    for empty in [false, true] {
                        let mut base = f.clone(); if empty { base[*o] = 0; }
                        let Some(z) = base[*o..end].iter().position(|x| *x == 0) else { continue };
                        if o + z + 1 >= end { continue; }
                        let mut dirty = base.clone(); for (j, x) in dirty[o + z + 1..end].iter_mut().enumerate() { *x = if *x == 0 { b'A' + (j % 26) as u8 } else { *x }; }
                        // a clean reference: everything after the first NUL zeroed
                        let mut clean = base.clone(); for x in clean[o + z + 1..end].iter_mut() { *x = 0; }
                        st.evaluations += 1; dirty_cases += 1;
                        let (dc, dd) = (decode_buf(compressed, &clean), decode_buf(compressed, &dirty));
                        let same = match (&dc, &dd) { (Dec::Got(p, _), Dec::Got(q, _)) => format!("{:?}", p) == format!("{:?}", q), (Dec::Bad(_), Dec::Bad(_)) => true, _ => false };
                        if !same { st.fail(format!("[C11] {}: bytes after the first NUL of the text at offset {o} change the decoded packet: {} vs {}", k.name, match &dd { Dec::Got(q, _) => format!("{:?}", q).chars().take(140).collect::<String>(), d => cls_string(d) }, match &dc { Dec::Got(q, _) => format!("{:?}", q).chars().take(140).collect::<String>(), d => cls_string(d) }), format!("dirty {} {o} {} {}", mode_tag(compressed), end, hex(&dirty))); }
                    }
                }
            }
        } }
        st.add("frames with bytes after the first NUL of a text slot (all other fields random)", dirty_cases);
    }
    typed_api_checks("C11", a, &mut st);
    st.rule = "every text field of every text-bearing kind (widths 6,8,16,24,32,64,96,128,240) on the real encoder: ASCII texts of lengths 0..2N (every length near N, all residues mod 4) and multi-byte / multi-codepage texts; oracle: the field's bytes inside the frame are the encoded text truncated to N and NUL-padded (fixed) / NUL-padded to a multiple of 4 within the maximum (variable), MST/MSX/MSL/MTC end in NUL, decoding returns the text up to the first NUL".into();
    st.sample("Mst msg = 64 x 'A' -> field holds 64 x 0x41, no terminating NUL (known finding)".into());
    out.finish(&st);
}
