(* Text/WireComposition.v — C12, the wire path: escape -> codepage encode -> codepage decode -> unescape
   is the identity on EVERY string whose non-ASCII characters exist in some codepage: carets, reserved
   characters, colour codes, codepage letters after carets, double-byte characters with a 0x5E trail byte -
   all of it (the two former known classes were repaired by 68d499a).  Axiom-free; the code tables are the
   oracle of Text/CodepageRoundtrip.v. *)
Require Import Coq.Strings.String.
Require Import Base.Bytes Gen.TextTab Text.Escape Text.EscapeProofs Text.Codepage Text.CodepageProofs Text.CodepageRoundtrip.
Require Import Lia.
Local Open Scope N_scope.

(* table facts: what escape can put after a caret is ASCII and, if it is a codepage letter at all, it is ^8 *)
Definition esc_tables_ok : bool :=
  forallb (fun '(a, b) => is_ascii b && negb (is_letter b) && negb (is_caret b)) gen_escape_tab &&
  forallb (fun d => is_ascii d && negb (is_caret d) && (negb (is_letter d) || (d =? gen_propagate_letter))) gen_colours &&
  is_ascii caret && negb (is_letter caret).
Lemma esc_tables_hold : esc_tables_ok = true. Proof. vm_compute. reflexivity. Qed.

Section Wire.
  Variable enc : N -> N -> option (list N).
  Variable dec : N -> list N -> list N.
  Hypothesis enc_shape : forall l c w, enc l c = Some w ->
    exists b1, 128 <= b1 /\ (w = [b1] \/ exists b2, w = [b1; b2]).
  Hypothesis dec_nil : forall l, dec l [] = [].
  Hypothesis dec_ascii_cons : forall l b r, is_ascii b = true -> dec l (b :: r) = b :: dec l r.
  Hypothesis dec_enc_app : forall l c w r, enc l c = Some w -> dec l (w ++ r) = c :: dec l r.
  Hypothesis enc_two_lead : forall l c b1 b2, enc l c = Some [b1; b2] -> lead l b1 = true.
  Hypothesis enc_one_nolead : forall l c b1, enc l c = Some [b1] -> lead l b1 = false.
  Hypothesis dec_prop : forall bs, dec gen_propagate_letter bs = dec gen_default_codepage bs.

  Notation safe := (safe enc).
  Notation encodable := (encodable enc).

  Lemma colour_facts d : is_colour d = true ->
    is_ascii d = true /\ is_caret d = false /\ (is_letter d = true -> d = gen_propagate_letter).
  Proof.
    intros H. pose proof esc_tables_hold as T. unfold esc_tables_ok in T.
    do 2 (apply andb_prop in T as [T _]). apply andb_prop in T as [_ T]. rewrite forallb_forall in T.
    unfold is_colour in H. apply existsb_exists in H as [x [Hin Hx]]. apply N.eqb_eq in Hx. subst x.
    specialize (T _ Hin). cbn beta in T. apply andb_prop in T as [T T3]. apply andb_prop in T as [T1 T2].
    apply negb_true_iff in T2. repeat split; auto.
    intros Hl. rewrite Hl in T3. cbn [negb orb] in T3. apply N.eqb_eq in T3. exact T3.
  Qed.
  Lemma escape_letter_facts c d : lookup c gen_escape_tab = Some d ->
    is_ascii d = true /\ is_letter d = false /\ is_caret d = false.
  Proof.
    intros H. apply lookup_in in H. pose proof esc_tables_hold as T. unfold esc_tables_ok in T.
    do 3 (apply andb_prop in T as [T _]). rewrite forallb_forall in T. specialize (T _ H). cbn beta iota in T.
    apply andb_prop in T as [T T3]. apply andb_prop in T as [T1 T2]. apply negb_true_iff in T2, T3. auto.
  Qed.
  Lemma caret_facts : is_ascii caret = true /\ is_letter caret = false.
  Proof.
    pose proof esc_tables_hold as T. unfold esc_tables_ok in T. apply andb_prop in T as [T T2]. apply andb_prop in T as [_ T1].
    apply negb_true_iff in T2. auto.
  Qed.

  (* the escaped form of any string with encodable characters is handled by the encoder *)
  Lemma esc_safe : forall n s cur, (length s <= n)%nat -> Forall encodable s -> safe cur false (esc s) = true.
  Proof.
    destruct caret_facts as [Hca Hcl].
    induction n as [|n IH]; intros s cur Hlen Hall.
    { destruct s; [reflexivity|cbn in Hlen; lia]. }
    destruct s as [|c t]; [reflexivity|]. cbn [length] in Hlen.
    inversion Hall as [|? ? Hc Ht]; subst.
    destruct (is_caret c) eqn:Hcc.
    - apply N.eqb_eq in Hcc. subst c. destruct t as [|d t'].
      + rewrite esc_caret_end. cbn [CodepageRoundtrip.safe]. rewrite Hca, Hcl, is_caret_caret. reflexivity.
      + destruct (is_colour d) eqn:Hcol.
        * rewrite (esc_colour _ _ Hcol). destruct (colour_facts _ Hcol) as [Had [Hcd Hl8]].
          inversion Ht as [|? ? _ Ht']; subst.
          cbn [CodepageRoundtrip.safe]. rewrite Hca, is_caret_caret, Had, Hcd. cbn [andb negb].
          destruct (is_letter d) eqn:Hld.
          -- rewrite (Hl8 eq_refl), N.eqb_refl. cbn [andb]. apply IH; [cbn [length] in Hlen; lia|exact Ht'].
          -- cbn [andb]. apply IH; [cbn [length] in Hlen; lia|exact Ht'].
        * rewrite (esc_caret_other _ _ Hcol).
          cbn [CodepageRoundtrip.safe]. rewrite Hca, Hcl, is_caret_caret. cbn [andb negb].
          apply IH; [lia|exact Ht].
    - rewrite (esc_plain _ _ Hcc). destruct (lookup c gen_escape_tab) as [d|] eqn:He.
      + destruct (escape_letter_facts _ _ He) as [Had [Hld Hcd]].
        cbn [CodepageRoundtrip.safe]. rewrite Hca, is_caret_caret, Had, Hld, Hcd. cbn [andb negb].
        apply IH; [lia|exact Ht].
      + cbn [CodepageRoundtrip.safe]. destruct (is_ascii c) eqn:Ha.
        * rewrite Hcc. cbn [andb negb]. apply IH; [lia|exact Ht].
        * destruct Hc as [Habs|Henc]; [congruence|].
          destruct (enc cur c) as [w|] eqn:E; [apply IH; [lia|exact Ht]|].
          destruct (Henc cur) as [H|H]; [congruence|].
          destruct (search enc gen_search_order cur c) as [[k w]|] eqn:Es; [|congruence].
          cbn [negb andb]. apply IH; [lia|exact Ht].
  Qed.

  (* C12, wire composition, full strength *)
  Theorem escaped_text_survives_the_wire s : Forall encodable s ->
    unescape (to_lossy_string dec (to_lossy_bytes enc (escape s))) = s.
  Proof.
    intros Hall. rewrite escape_is_esc.
    rewrite (roundtrip enc dec enc_shape dec_nil dec_ascii_cons dec_enc_app enc_two_lead enc_one_nolead dec_prop (esc s)).
    - rewrite unescape_is_unesc. apply unesc_esc.
    - apply (esc_safe (length s)); [apply le_n|exact Hall].
  Qed.
End Wire.
