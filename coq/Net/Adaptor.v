(* Net/Adaptor.v — model of the buffering transport adaptors that turn a message transport into
   the byte stream Framed reads: the blocking and (fixed) tokio UdpStream (one item = one
   datagram) and the WebsocketStream (one item = one binary message; other messages are skipped).
   One read with a caller slice of c+1 bytes: serve the adaptor's own buffer first; otherwise pull
   the next item into the buffer and serve from it. Also the write side (one call = one item).
   Model and proofs in one file (small). Axiom-free. *)
Require Import Base.Bytes Net.Frame Net.Framed.
Local Open Scope N_scope.

Inductive item := IBytes (bs : list N) | ISkip | IEnd.   (* payload / non-binary message / closed *)

(* find the next payload: skipped messages and (for WebSocket) empty binary messages are passed over *)
Inductive pulled := PData (d : list N) (rest : list item) | PEnd (rest : list item) | PBlocked.
Fixpoint pull (empty_is_eof : bool) (items : list item) : pulled :=
  match items with
  | [] => PBlocked
  | IBytes [] :: t => if empty_is_eof then PEnd t else pull empty_is_eof t
  | IBytes d :: t => PData d t
  | ISkip :: t => pull empty_is_eof t
  | IEnd :: t => PEnd t
  end.

(* one read: the event Framed sees, the adaptor's new buffer, the remaining items *)
Definition aread (empty_is_eof : bool) (buf : list N) (items : list item) (c : nat) : option (rev * list N * list item) :=
  match buf with
  | _ :: _ => Some (Data (firstn (S c) buf), skipn (S c) buf, items)
  | [] =>
      match pull empty_is_eof items with
      | PData d rest => Some (Data (firstn (S c) d), skipn (S c) d, rest)
      | PEnd rest => Some (Eof, [], rest)
      | PBlocked => None
      end
  end.

(* a sequence of reads with the given slice sizes *)
Fixpoint serve (empty_is_eof : bool) (sizes : list nat) (buf : list N) (items : list item) : list rev * list N * list item :=
  match sizes with
  | [] => ([], buf, items)
  | c :: cs =>
      match aread empty_is_eof buf items c with
      | Some (Eof, b, it) => ([Eof], b, it)
      | Some (e, b, it) => let '(es, b', it') := serve empty_is_eof cs b it in (e :: es, b', it')
      | None => ([], buf, items)
      end
  end.

Fixpoint payload (items : list item) : list N :=
  match items with
  | [] => []
  | IBytes d :: t => d ++ payload t
  | ISkip :: t => payload t
  | IEnd :: _ => []
  end.
Definition no_end (items : list item) : bool := forallb (fun i => match i with IEnd => false | _ => true end) items.
Definition no_empty (items : list item) : bool := forallb (fun i => match i with IBytes [] => false | _ => true end) items.

(* the direct, unbuffered receive (what the tokio UdpStream did before the fix): whatever does not
   fit the caller's slice is discarded with the datagram *)
Definition direct_recv (d : list N) (c : nat) : list N := firstn (S c) d.

(* ---------------- proofs ---------------- *)
Lemma pull_payload eof items : no_end items = true -> (eof = true -> no_empty items = true) ->
  match pull eof items with
  | PData d rest => d <> [] /\ payload items = d ++ payload rest /\ no_end rest = true /\ (eof = true -> no_empty rest = true)
  | PEnd _ => False
  | PBlocked => payload items = []
  end.
Proof.
  induction items as [|i t IH]; cbn [pull no_end no_empty forallb payload]; intros Hn He; [reflexivity|].
  destruct i as [[|b d]| |].
  - (* empty payload *)
    apply andb_prop in Hn as [_ Hn]. destruct eof.
    + specialize (He eq_refl). discriminate.
    + cbn [app]. apply IH; [exact Hn|discriminate].
  - apply andb_prop in Hn as [_ Hn]. split; [discriminate|]. split; [reflexivity|]. split; [exact Hn|].
    intros E. specialize (He E). cbn in He. exact He.
  - apply andb_prop in Hn as [_ Hn]. apply IH; [exact Hn|].
    intros E. specialize (He E). apply andb_prop in He as [_ He]. exact He.
  - discriminate.
Qed.

Definition chunk_ok (e : rev) : Prop := match e with Data (_ :: _) => True | _ => False end.

(* whatever the slice sizes: every event is a non-empty Data chunk, and the bytes delivered so far
   followed by what is still buffered / pending are exactly the payload stream - nothing lost,
   duplicated or reordered *)
Theorem serve_stream eof sizes : forall buf items,
  no_end items = true -> (eof = true -> no_empty items = true) ->
  let '(es, buf', items') := serve eof sizes buf items in
  Forall chunk_ok es /\ buf ++ payload items = data_of es ++ buf' ++ payload items'.
Proof.
  induction sizes as [|c cs IH]; intros buf items Hn He; cbn [serve].
  - split; [constructor|reflexivity].
  - unfold aread. destruct buf as [|b buf0].
    + pose proof (pull_payload eof items Hn He) as Hp.
      destruct (pull eof items) as [d rest| |] eqn:Ep.
      * destruct Hp as [Hd [Hpay [Hn' He']]].
        specialize (IH (skipn (S c) d) rest Hn' He').
        destruct (serve eof cs (skipn (S c) d) rest) as [[es b'] it'] eqn:Es.
        destruct IH as [IH1 IH2]. split.
        -- constructor; [|exact IH1]. destruct d; [congruence|exact I].
        -- cbn [data_of app]. rewrite Hpay. rewrite <- (firstn_skipn (S c) d) at 1.
           rewrite <- !app_assoc. f_equal. exact IH2.
      * destruct Hp.
      * split; [constructor|]. reflexivity.
    + set (buf := b :: buf0).
      specialize (IH (skipn (S c) buf) items Hn He).
      destruct (serve eof cs (skipn (S c) buf) items) as [[es b'] it'] eqn:Es.
      destruct IH as [IH1 IH2]. split.
      * constructor; [exact I|exact IH1].
      * cbn [data_of]. rewrite <- (firstn_skipn (S c) buf) at 1. rewrite <- !app_assoc. f_equal. exact IH2.
Qed.

(* in particular, once everything has been served, the chunks are the payload stream *)
Corollary serve_complete eof sizes items es :
  no_end items = true -> (eof = true -> no_empty items = true) ->
  serve eof sizes [] items = (es, [], []) ->
  Forall chunk_ok es /\ data_of es = payload items.
Proof.
  intros Hn He Hs. pose proof (serve_stream eof sizes [] items Hn He) as H. rewrite Hs in H.
  destruct H as [H1 H2]. split; [exact H1|]. cbn [app payload] in H2. rewrite app_nil_r in H2. symmetry. exact H2.
Qed.

(* closure (or, for UDP, an empty datagram) surfaces as end of stream *)
Lemma aread_end eof c t : aread eof [] (IEnd :: t) c = Some (Eof, [], t).
Proof. reflexivity. Qed.

(* why the adaptor buffer is needed: a direct receive into a slice smaller than the datagram loses data *)
Theorem direct_recv_loses_data : exists d c, direct_recv d c <> d.
Proof. exists [1; 2; 3; 4; 5; 6; 7; 8], 3%nat. vm_compute. discriminate. Qed.
Theorem direct_recv_intact_only_if_fits d c : (length d <= S c)%nat -> direct_recv d c = d.
Proof. intros H. unfold direct_recv. apply firstn_all2. exact H. Qed.

(* write side: one call hands the whole frame to the message transport, which takes it as one item *)
Definition awrite (frame : list N) : list item * nat := ([IBytes frame], length frame).
Theorem awrite_one_item_whole_frame frame : fst (awrite frame) = [IBytes frame] /\ snd (awrite frame) = length frame.
Proof. split; reflexivity. Qed.

(* ---------------- UDP: a datagram is received into a scratch array of [scratch] bytes ---------------- *)
(* what the adaptor obtains from recv(&mut [0u8; scratch]): the datagram cut to the scratch size *)
Definition udp_items (scratch : nat) (ds : list (list N)) : list item :=
  map (fun d => IBytes (firstn scratch d)) ds.

Lemma udp_items_fit scratch ds : Forall (fun d => (length d <= scratch)%nat) ds -> udp_items scratch ds = map IBytes ds.
Proof.
  unfold udp_items. induction 1 as [|d ds Hd _ IH]; [reflexivity|]. cbn [map]. rewrite IH, firstn_all2 by exact Hd. reflexivity.
Qed.

Lemma payload_bytes ds : payload (map IBytes ds) = concat ds.
Proof. induction ds as [|d ds IH]; [reflexivity|]. cbn [map payload concat]. rewrite IH. reflexivity. Qed.
Lemma no_end_bytes ds : no_end (map IBytes ds) = true.
Proof. induction ds as [|d ds IH]; [reflexivity|]. cbn. exact IH. Qed.
Lemma no_empty_bytes ds : Forall (fun d => d <> []) ds -> no_empty (map IBytes ds) = true.
Proof. induction 1 as [|d ds Hd _ IH]; [reflexivity|]. cbn [map no_empty forallb]. destruct d; [congruence|]. exact IH. Qed.

(* ---------------- enough reads drain everything ---------------- *)
Definition item_weight (i : item) : nat := match i with IBytes d => S (length d) | _ => 1 end.
Fixpoint weight (items : list item) : nat := match items with [] => 0 | i :: t => item_weight i + weight t end.

Lemma pull_weight eof items : match pull eof items with
  | PData d rest => (length d + weight rest < weight items)%nat
  | PEnd rest => (weight rest < weight items)%nat
  | PBlocked => True end.
Proof.
  induction items as [|i t IH]; cbn [pull]; [exact I|].
  destruct i as [[|b d]| |]; cbn [weight item_weight length].
  - destruct eof; [lia|]. destruct (pull false t); try exact I; lia.
  - lia.
  - destruct (pull eof t); try exact I; lia.
  - lia.
Qed.

(* after any reads at all, what remains is consistent; after at least |buf| + weight reads
   (or fewer, when the slices are large) nothing remains buffered and no payload is pending *)
Theorem serve_drains eof : forall sizes buf items,
  no_end items = true -> (eof = true -> no_empty items = true) ->
  (length buf + weight items <= length sizes)%nat ->
  let '(es, buf', items') := serve eof sizes buf items in buf' = [] /\ payload items' = [].
Proof.
  induction sizes as [|c cs IH]; intros buf items Hn He Hlen; cbn [serve].
  - cbn [length] in Hlen. destruct buf; [|cbn in Hlen; lia]. destruct items as [|i t]; [auto|].
    destruct i; cbn [weight item_weight] in Hlen; lia.
  - unfold aread. destruct buf as [|b buf0].
    + pose proof (pull_payload eof items Hn He) as Hp. pose proof (pull_weight eof items) as Hw.
      destruct (pull eof items) as [d rest| |] eqn:Ep.
      * destruct Hp as [Hd [Hpay [Hn' He']]].
        assert (Hl : (length (skipn (S c) d) + weight rest <= length cs)%nat).
        { rewrite skipn_length. cbn [length] in Hlen. destruct d; [congruence|]. cbn [length] in *. lia. }
        specialize (IH (skipn (S c) d) rest Hn' He' Hl).
        destruct (serve eof cs (skipn (S c) d) rest) as [[es b'] it']. exact IH.
      * destruct Hp.
      * auto.
    + set (buf := b :: buf0) in *.
      assert (Hl : (length (skipn (S c) buf) + weight items <= length cs)%nat).
      { rewrite skipn_length. subst buf. cbn [length] in *. lia. }
      specialize (IH (skipn (S c) buf) items Hn He Hl).
      destruct (serve eof cs (skipn (S c) buf) items) as [[es b'] it']. exact IH.
Qed.

Lemma awrite_write_all frame : frame <> [] ->
  fst (awrite frame) = [IBytes frame] /\
  write_all [WAccept (pred (snd (awrite frame)))] frame = (frame, WOk, []).
Proof.
  intros Hne. split; [reflexivity|]. unfold awrite. cbn [snd].
  destruct frame as [|b t]; [congruence|]. cbn [length pred write_all].
  rewrite Nat.min_id. cbn [skipn firstn]. rewrite skipn_all, firstn_all. cbn [write_all]. rewrite app_nil_r. reflexivity.
Qed.
