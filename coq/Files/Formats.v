(* Files/Formats.v — executable models of the PTH and SMX readers / writers (insim_pth, insim_smx)
   built from the parser combinators; the flat field lists of every record, the magic numbers and
   the nesting order are regenerated from the source (Gen/FilesTab.v). Numeric payloads are raw
   little-endian byte images (any bit pattern, incl. NaN, is data). Pads are read as `take`
   (binrw seeks; a seek past the end is always followed by a failing read in these two formats,
   so the observable outcome is the same).  No proofs here. *)
Require Import Base.Bytes Files.Parser Gen.FilesTab Wire.Layout.
Local Open Scope N_scope.

Definition fval := list (list N).          (* one entry per field of a flat record *)
Definition i32_limit : N := 2147483648.    (* a count >= 2^31 is a negative i32: usize::try_from fails *)

(* one flat record: values per field, plus the counts read (in order) *)
Fixpoint p_rec (fs : list (fkind * nat)) : parser (fval * list nat) :=
  match fs with
  | [] => p_ret ([], [])
  | (k, w) :: fs' =>
      p_bind (p_take w) (fun chunk =>
        match k with
        | KCount =>
            if le_dec chunk <? i32_limit
            then p_bind (p_rec fs') (fun '(vs, cs) => p_ret ([] :: vs, N.to_nat (le_dec chunk) :: cs))
            else p_fail
        | KNum => p_bind (p_rec fs') (fun '(vs, cs) => p_ret (chunk :: vs, cs))
        | KPad => p_bind (p_rec fs') (fun '(vs, cs) => p_ret ([] :: vs, cs))
        | KText => p_bind (p_rec fs') (fun '(vs, cs) => p_ret (strip_nul chunk :: vs, cs))
        end)
  end.
Definition p_plain (fs : list (fkind * nat)) : parser fval := p_bind (p_rec fs) (fun '(vs, _) => p_ret vs).
Definition p_count : parser nat :=
  p_bind (p_take 4) (fun c => if le_dec c <? i32_limit then p_ret (N.to_nat (le_dec c)) else p_fail).
Definition p_magic (m : list N) : parser unit :=
  p_bind (p_take (length m)) (fun c => if list_eqb c m then p_ret tt else p_fail).

(* writer of one flat record; counts are supplied in order *)
Fixpoint w_rec (fs : list (fkind * nat)) (vs : fval) (cs : list nat) : list N :=
  match fs, vs with
  | (k, w) :: fs', v :: vs' =>
      match k with
      | KNum => v ++ w_rec fs' vs' cs
      | KPad => repeat 0 w ++ w_rec fs' vs' cs
      | KText => write_fixed w v ++ w_rec fs' vs' cs
      | KCount => match cs with c :: cs' => le_enc w (N.of_nat c) ++ w_rec fs' vs' cs' | [] => [] end
      end
  | _, _ => []
  end.

(* ---- PTH ---- *)
Record pth := { pth_head : fval; pth_nodes : list fval }.
Definition p_pth : parser pth :=
  p_bind (p_magic gen_pth_magic) (fun _ =>
  p_bind (p_rec gen_pth_head) (fun '(hv, cs) =>
  p_bind (p_repeat (hd 0%nat cs) (p_plain gen_pth_node)) (fun nodes =>
  p_ret {| pth_head := hv; pth_nodes := nodes |}))).
Definition w_pth (f : pth) : list N :=
  gen_pth_magic ++ w_rec gen_pth_head (pth_head f) [length (pth_nodes f)]
  ++ concat (map (fun n => w_rec gen_pth_node n []) (pth_nodes f)).

(* ---- SMX ---- *)
Record object := { o_head : fval; o_points : list fval; o_tris : list fval }.
Record smx := { s_head : fval; s_objects : list object; s_checkpoints : list fval }.
Definition p_object : parser object :=
  p_bind (p_plain gen_smx_object_head) (fun hv =>
  p_bind p_count (fun np =>
  p_bind p_count (fun nt =>
  p_bind (p_repeat np (p_plain gen_smx_point)) (fun pts =>
  p_bind (p_repeat nt (p_plain gen_smx_triangle)) (fun tris =>
  p_ret {| o_head := hv; o_points := pts; o_tris := tris |}))))).
Definition p_smx : parser smx :=
  p_bind (p_magic gen_smx_magic) (fun _ =>
  p_bind (p_plain gen_smx_head) (fun hv =>
  p_bind p_count (fun no =>
  p_bind (p_repeat no p_object) (fun objs =>
  p_bind p_count (fun nc =>
  p_bind (p_repeat nc (p_plain gen_smx_checkpoint)) (fun cps =>
  p_ret {| s_head := hv; s_objects := objs; s_checkpoints := cps |})))))).
Definition w_count (n : nat) : list N := le_enc 4 (N.of_nat n).
Definition w_object (o : object) : list N :=
  w_rec gen_smx_object_head (o_head o) [] ++ w_count (length (o_points o)) ++ w_count (length (o_tris o))
  ++ concat (map (fun p => w_rec gen_smx_point p []) (o_points o))
  ++ concat (map (fun t => w_rec gen_smx_triangle t []) (o_tris o)).
Definition w_smx (f : smx) : list N :=
  gen_smx_magic ++ w_rec gen_smx_head (s_head f) [] ++ w_count (length (s_objects f))
  ++ concat (map w_object (s_objects f)) ++ w_count (length (s_checkpoints f))
  ++ concat (map (fun c => w_rec gen_smx_checkpoint c []) (s_checkpoints f)).

(* whole-file entry points: success = the structure (trailing bytes are not read) *)
Definition parse_pth (bs : list N) : res pth := match p_pth bs with Ok (f, _) => Ok f | Err => Err | Panic => Panic end.
Definition parse_smx (bs : list N) : res smx := match p_smx bs with Ok (f, _) => Ok f | Err => Err | Panic => Panic end.
