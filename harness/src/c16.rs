//! C16 — game versions: parse / print / order on the real GameVersion, and the std oracles the Coq
//! model assumes (char::is_numeric on ASCII, f32 and usize Display / FromStr round trips, f32 order).
use std::{cmp::Ordering, str::FromStr};

use insim_core::game_version::{GameVersion, GameVersionParseError};

use crate::common::*;

fn cps(s: &str) -> String { if s.is_empty() { "-".into() } else { s.chars().map(|c| format!("{:x}", c as u32)).collect::<Vec<_>>().join(",") } }
fn show(r: &Result<GameVersion, GameVersionParseError>) -> String {
    match r { Ok(v) => format!("ok {} {} {}", v.major.to_bits(), v.minor as u32, v.patch.map(|p| p.to_string()).unwrap_or("none".into())), Err(GameVersionParseError::Major(_)) => "EMajor".into(), Err(GameVersionParseError::Minor(_)) => "EMinor".into(), Err(GameVersionParseError::Patch(_)) => "EPatch".into() }
}
fn ord(o: Ordering) -> &'static str { match o { Ordering::Less => "Lt", Ordering::Equal => "Eq", Ordering::Greater => "Gt" } }

/// the model case line: the std oracles' answers for exactly the runs the parser takes
fn model_line(s: &str) -> String {
    let cs: Vec<char> = s.chars().collect();
    let flags: String = cs.iter().map(|c| if c.is_numeric() { '1' } else { '0' }).collect();
    let mj: String = cs.iter().take_while(|c| c.is_numeric() || **c == '.').collect();
    let f = mj.parse::<f32>().ok().map(|x| x.to_bits().to_string()).unwrap_or("none".into());
    let rest: Vec<char> = cs[mj.chars().count()..].to_vec();
    let pr: String = rest.iter().skip(1).take_while(|c| c.is_numeric()).collect();
    let u = pr.parse::<usize>().ok().map(|x| x.to_string()).unwrap_or("none".into());
    format!("gv {} {} {} {}", cps(s), if flags.is_empty() { "-".into() } else { flags }, f, u)
}

fn check(s: &str, st: &mut Stats) -> String {
    let id = cps(s);
    let Some(r) = watched("GameVersion::from_str", || id.clone(), || guard(|| GameVersion::from_str(s))) else { st.fail("[C16] GameVersion::from_str panics".into(), id); return "P".into() };
    if let Ok(v) = &r {
        if v.major.is_finite() {
            let p = v.to_string();
            match guard(|| GameVersion::from_str(&p)) { Some(Ok(v2)) => { if v2 != *v || v2.cmp(v) != Ordering::Equal { st.fail(format!("[C16] {:?} parses to {:?}, printed {:?} parses to {:?}", s, v, p, v2), id.clone()); } }, other => st.fail(format!("[C16] {:?} parses, but its printed form {:?} gives {:?}", s, p, other.map(|x| x.is_ok())), id.clone()) }
        }
        if !(v.minor.is_ascii_uppercase()) { st.fail(format!("[C16] parsed letter {:?} is not an upper-case ASCII letter", v.minor), id.clone()); }
        if v.major.is_nan() || v.major.is_sign_negative() { st.fail(format!("[C16] parsed number {:?} is NaN or negative", v.major), id.clone()); }
    }
    // case-insensitivity: flip the case of every ASCII letter
    let flipped: String = s.chars().map(|c| if c.is_ascii_lowercase() { c.to_ascii_uppercase() } else if c.is_ascii_uppercase() { c.to_ascii_lowercase() } else { c }).collect();
    let r2 = GameVersion::from_str(&flipped);
    let same = match (&r, &r2) { (Ok(a), Ok(b)) => a == b, (Err(a), Err(b)) => std::mem::discriminant(a) == std::mem::discriminant(b), _ => false };
    if !same { st.fail(format!("[C16] {:?} and its case-flipped form {:?} parse differently: {} vs {}", s, flipped, show(&r), show(&r2)), id); }
    show(&r)
}

pub fn run(a: &Args) {
    if let Some(r) = &a.replay { let s: String = if r == "-" { String::new() } else { r.split(',').map(|x| char::from_u32(u32::from_str_radix(x, 16).unwrap()).unwrap()).collect() }; let mut st = Stats::default(); let o = check(&s, &mut st); if st.failures_total > 0 { println!("FAIL {}", st.failures[0].1); std::process::exit(1) } else { println!("PASS {o}"); return } }
    let mut rng = Rng::new(a.seed);
    let mut st = Stats::default(); let mut out = Out::new(&a.out);
    // 1. exhaustive over a class alphabet
    let alpha: Vec<char> = vec!['0', '7', '1', '.', 'A', 'k', 'Z', '-', ' ', '²', '٣', 'é', '\0', 'e'];
    let maxlen = if a.thorough() { 6 } else { 5 };
    let mut idx: Vec<usize> = vec![]; let mut parsed: Vec<GameVersion> = vec![]; let mut n = 0u64;
    loop {
        let s: String = idx.iter().map(|i| alpha[*i]).collect();
        let o = check(&s, &mut st); st.evaluations += 1; n += 1;
        if o.starts_with("ok") { st.distinct_nontrivial += 1; if parsed.len() < 4000 && n % 3 == 0 { parsed.push(GameVersion::from_str(&s).unwrap()); } }
        st.bump(&format!("outcome:{}", o.split(' ').next().unwrap()));
        if n % (if a.thorough() { 41 } else { 7 }) == 0 || s.len() <= 3 { out.case(&model_line(&s), &o); }
        let mut k = idx.len();
        loop { if k == 0 { idx = vec![0; idx.len() + 1]; break; } k -= 1; if idx[k] + 1 < alpha.len() { idx[k] += 1; for j in k + 1..idx.len() { idx[j] = 0; } break; } }
        if idx.len() > maxlen { break; }
    }
    st.exhaustive.push(format!("all strings of length <= {maxlen} over a {}-character class alphabet (digits, '.', letters of both cases, 'e', '-', space, NUL, non-ASCII numerics, other)", alpha.len()));
    // 2. known versions, the 8-byte wire shape, long digit runs, random Unicode
    let known = ["0.7F", "0.7E15", "0.6W43", "0.04k", "0.7D64", "1A", "0.7A", "12.5Z9", "0.7", "", "0.7E0", "007.50B003", "99999999999999999999999999999999999999999A", "0.0000001A", "16777217A", "3.4028235e38A", "0.7A18446744073709551616", "0.7A18446744073709551615"];
    // digit runs around and beyond usize::MAX / f32 range in the revision and in the number (arithmetic overflow must be an
    // error, never a panic: the harness is built with overflow checks on)
    let mut long: Vec<String> = vec![];
    for len in [18usize, 19, 20, 21, 25, 40] { for lead in ["1", "9", "18446744073709551615", "18446744073709551616"] {
        let mut d = lead.to_string(); while d.len() < len { d.push(char::from(b'0' + rng.below(10) as u8)); }
        long.push(format!("0.7F{d}")); long.push(format!("{d}.5A3")); long.push(format!("0.{d}B")); long.push(format!("{d}Z{d}"));
    } }
    for s in &long { let _ = check(s, &mut st); st.evaluations += 1; st.bump("string:long digit runs"); }
    for s in known { let o = check(s, &mut st); st.evaluations += 1; if !s.contains("1844674407370955161") { out.case(&model_line(s), &o); } if o.starts_with("ok") { parsed.push(GameVersion::from_str(s).unwrap()); } }
    for _ in 0..(if a.thorough() { 300_000 } else { 30_000 }) {
        let len = rng.range(1, 12) as usize;
        let s: String = (0..len).map(|i| match (i, rng.below(10)) { (_, 0) => char::from_u32(rng.range(0x20, 0x2ff) as u32).unwrap_or('x'), (_, 1) => '.', (_, 2) | (_, 3) => (b'A' + rng.below(26) as u8) as char, (_, 4) => (b'a' + rng.below(26) as u8) as char, _ => (b'0' + rng.below(10) as u8) as char }).collect();
        let o = check(&s, &mut st); st.evaluations += 1; if o.starts_with("ok") { st.distinct_nontrivial += 1; if parsed.len() < 6000 { parsed.push(GameVersion::from_str(&s).unwrap()); } }
        out.case(&model_line(&s), &o);
    }
    // 3. order axioms on pairs / triples of parsed versions; lexicographic specification; model comparison
    let m = parsed.len();
    for _ in 0..(if a.thorough() { 2_000_000 } else { 200_000 }) {
        let (x, y, z) = (&parsed[rng.below(m as u64) as usize], &parsed[rng.below(m as u64) as usize], &parsed[rng.below(m as u64) as usize]);
        st.evaluations += 1;
        let (xy, yx, yz, xz) = (x.cmp(y), y.cmp(x), y.cmp(z), x.cmp(z));
        let idp = format!("{} | {} | {}", x, y, z);
        if xy != yx.reverse() { st.fail(format!("[C16] cmp is not antisymmetric on {} / {}", x, y), idp.clone()); }
        if (xy == Ordering::Equal) != (x == y) { st.fail(format!("[C16] cmp and == disagree on {} / {}", x, y), idp.clone()); }
        if xy == Ordering::Less && yz == Ordering::Less && xz != Ordering::Less { st.fail(format!("[C16] cmp is not transitive on {} < {} < {}", x, y, z), idp.clone()); }
        if xy != Ordering::Greater && yz != Ordering::Greater && xz == Ordering::Greater { st.fail(format!("[C16] cmp is not transitive (<=) on {} {} {}", x, y, z), idp.clone()); }
        let spec = x.major.partial_cmp(&y.major).unwrap().then(x.minor.cmp(&y.minor)).then(x.patch.unwrap_or(0).cmp(&y.patch.unwrap_or(0)));
        if xy != spec { st.fail(format!("[C16] cmp({}, {}) = {:?}, lexicographic (number, letter, revision or 0) gives {:?}", x, y, xy, spec), idp.clone()); }
        if x.cmp(x) != Ordering::Equal || Some(xy) != x.partial_cmp(y) { st.fail("[C16] cmp not reflexive / partial_cmp differs".into(), idp); }
        let f = |v: &GameVersion| format!("{} {} {}", v.major.to_bits(), v.minor as u32, v.patch.map(|p| p.to_string()).unwrap_or("none".into()));
        if st.evaluations % 16 == 0 && x.patch.unwrap_or(0) < (1 << 40) && y.patch.unwrap_or(0) < (1 << 40) { out.case(&format!("vcmp {} {}", f(x), f(y)), &format!("{} {}", ord(xy), if x == y { "eq" } else { "ne" })); }
    }
    // 3b. equality is an equivalence consistent with the order, also between NEIGHBOURS: every parsed version against itself and
    //     against the versions whose number is the next / previous float (one unit in the last place apart), same letter and revision
    for v in parsed.iter().take(6000) {
        st.evaluations += 1;
        let id = format!("{} | {} | {}", v, v, v);
        #[allow(clippy::eq_op)]
        if !(v == v) { st.fail(format!("[C16] {} is not equal to itself", v), id.clone()); }
        if v.major.is_finite() {
            for nb in [f32::from_bits(v.major.to_bits() + 1), if v.major.to_bits() > 0 { f32::from_bits(v.major.to_bits() - 1) } else { v.major }] {
                if nb.to_bits() == v.major.to_bits() || !nb.is_finite() { continue; }
                let w = GameVersion { major: nb, minor: v.minor, patch: v.patch };
                let c = v.cmp(&w);
                let want = v.major.partial_cmp(&nb).unwrap();
                if c != want { st.fail(format!("[C16] cmp of versions one float step apart ({:?} vs {:?}) is {:?}", v.major, nb, c), id.clone()); }
                if *v == w { st.fail(format!("[C16] versions whose numbers are the distinct floats {:?} and {:?} compare == although cmp is {:?}", v.major, nb, c), format!("{} | {} | {}", v, w, v)); }
            }
        }
    }
    // 4. the oracle hypotheses of the model, on std itself
    for c in 0u32..128 { let ch = char::from_u32(c).unwrap(); if ch.is_numeric() != ch.is_ascii_digit() { st.fail(format!("[C16 oracle] is_numeric({:?})", ch), format!("char {c}")); } }
    let check_bits = |x: u32, st: &mut Stats| {
        let f = f32::from_bits(x); let s = format!("{}", f);
        let ok_shape = !s.is_empty() && s.chars().all(|c| c.is_ascii_digit() || c == '.') && s.chars().filter(|c| *c == '.').count() <= 1 && s.chars().next().unwrap().is_ascii_digit();
        if !ok_shape { st.fail(format!("[C16 oracle] f32 bits {x:#x} prints as {:?}", s), format!("bits {x}")); }
        match s.parse::<f32>() { Ok(g) if g.to_bits() == x => {}, other => st.fail(format!("[C16 oracle] f32 bits {x:#x} prints as {:?} which parses to {:?}", s, other.map(|g| g.to_bits())), format!("bits {x}")) }
        // order on the domain = unsigned order of the bit patterns
        if x < 0x7f80_0000 { let g = f32::from_bits(x + 1); if f.partial_cmp(&g) != Some(Ordering::Less) || g.partial_cmp(&f) != Some(Ordering::Greater) || f.partial_cmp(&f) != Some(Ordering::Equal) { st.fail(format!("[C16 oracle] f32 order is not the bit-pattern order at {x:#x}"), format!("bits {x}")); } }
    };
    if a.thorough() {
        let handles: Vec<_> = (0..16u32).map(|t| std::thread::spawn(move || { let mut st = Stats::default(); let lo = t * (0x7f80_0000 / 16); let hi = if t == 15 { 0x7f80_0000 } else { (t + 1) * (0x7f80_0000 / 16) }; for x in lo..hi { check_bits_static(x, &mut st); } st })).collect();
        for h in handles { let s2 = h.join().unwrap(); for f in s2.failures { st.fail(f.1, f.2); } }
        st.evaluations += 0x7f80_0000; st.exhaustive.push("all 2 139 095 040 non-negative finite f32 bit patterns: Display shape, Display/FromStr round trip, order = bit-pattern order".into());
    } else {
        for i in 0..2_000_000u64 { let x = match i % 4 { 0 => (i / 4) as u32, 1 => 0x7f7f_ffff - (i / 4) as u32, _ => (rng.next() % 0x7f80_0000) as u32 }; check_bits(x, &mut st); st.evaluations += 1; }
    }
    for p in [0usize, 1, 9, 10, 4096, usize::MAX] { let s = p.to_string(); if s.is_empty() || !s.chars().all(|c| c.is_ascii_digit()) || s.parse::<usize>() != Ok(p) { st.fail(format!("[C16 oracle] usize {p} Display/FromStr"), format!("usize {p}")); } }
    if "".parse::<usize>().is_ok() || "".parse::<f32>().is_ok() { st.fail("[C16 oracle] the empty string parses".into(), "empty".into()); }
    // the 8-byte wire forms of the shape LFS emits (digits '.' digits LETTER digits, NUL-padded when shorter than 8): the version an IS_VER
    // frame carries is the version its text parses to - every character of the field counts, the eighth included
    {
        use crate::wire::{decode_buf, Dec};
        let mut texts: Vec<String> = vec![];
        for major in ["0", "1", "12", "123"] { for minor in ["6", "7", "12", "345"] { for letter in ["F", "W", "a", "z"] { for rev in ["", "0", "1", "12", "123", "1234", "12345"] {
            let t = format!("{major}.{minor}{letter}{rev}"); if t.len() <= 8 { texts.push(t); }
        } } } }
        for t in ["0.7F", "0.6W1234", "99999999", "0.123456", "1234567A", "0.7F0000", "1.2B3456", ".1234567"] { texts.push(t.to_string()); }
        let nfull = texts.iter().filter(|t| t.len() == 8).count();
        for t in &texts { for compressed in [true, false] {
            st.evaluations += 1; st.bump(if t.len() == 8 { "wire forms:8 bytes" } else { "wire forms:shorter" });
            let mut f = vec![if compressed { 5 } else { 20 }, 2, 0, 0]; let mut v = t.as_bytes().to_vec(); v.resize(8, 0); f.extend(v); f.extend_from_slice(b"DEMO\0\0"); f.push(9); f.push(0);
            let id = format!("verframe {} {}", if compressed { "C" } else { "U" }, t);
            match (GameVersion::from_str(t), decode_buf(compressed, &f)) {
                (Ok(want), Dec::Got(insim::Packet::Ver(v), _)) => if v.version != want { st.fail(format!("[C16] an IS_VER frame whose version field is {t:?} carries {:?}, but the text parses to {:?}", v.version, want), id); },
                (Ok(_), d) => st.fail(format!("[C16] an IS_VER frame whose version field is the valid text {t:?} is not decoded: {}", crate::wire::cls_string(&d)), id),
                (Err(_), Dec::Got(insim::Packet::Ver(v), _)) => st.fail(format!("[C16] the version field {t:?} does not parse as a version but the frame decodes to {:?}", v.version), id),
                (Err(_), _) => {},
            }
        } }
        // ... and the other way round: a parsed version written into an IS_VER either is refused (its printed form does not fit the 8 bytes) or
        // reads back as an equal version - including printed forms of 9 and more bytes, with and without a revision, letters other than A
        let mut long: Vec<String> = texts.clone();
        for t in ["0.123456B", "0.123456A", "0.123456Z9", "1234.567B", "0.12345B0", "0.12345B12", "12.34567C", "0.1234567", "100000.5D"] { long.push(t.to_string()); }
        for t in &long { if let Ok(v) = GameVersion::from_str(t) { for compressed in [true, false] {
            st.evaluations += 1; st.bump("versions written into IS_VER");
            let p = insim::Packet::Ver(insim::insim::Ver { reqi: insim::identifiers::RequestId(1), version: v.clone(), product: "S3".into(), insimver: 9 });
            let id = format!("verwrite {} {}", if compressed { "C" } else { "U" }, t);
            match crate::wire::encode_p(compressed, &p) {
                crate::wire::Enc::Ok(b) => match decode_buf(compressed, &b) {
                    Dec::Got(insim::Packet::Ver(v2), _) => if v2.version != v { st.fail(format!("[C16] the version parsed from {t:?} ({:?}) is written into IS_VER as {:?} and reads back as {:?}", v, String::from_utf8_lossy(&b[4..12.min(b.len())]), v2.version), id); },
                    d => st.fail(format!("[C16] the IS_VER written for the version parsed from {t:?} does not decode: {}", crate::wire::cls_string(&d)), id),
                },
                crate::wire::Enc::Err => {},
                crate::wire::Enc::Panic => st.fail(format!("[C16] writing the version parsed from {t:?} into IS_VER panics"), id),
            }
        } } }
        st.notes.push(format!("IS_VER wire forms: {} texts, {nfull} of them filling all 8 bytes", texts.len()));
    }
    st.rule = "real GameVersion FromStr / Display / Ord under catch_unwind: exhaustive over a class alphabet up to a bounded length, known versions and edge texts, random strings; oracle per string: printed form of a finite parsed version re-parses equal, letter upper-case ASCII, case-flipped text parses identically; order axioms + lexicographic specification on random pairs / triples of parsed versions; the std oracles of the Coq model (is_numeric on ASCII, f32 Display shape / round trip / order = bit order, usize round trip) on sampled (quick) or all (thorough) non-negative f32; non-trivial = parses successfully".into();
    st.sample("gv 0.7e15 -> ok <bits of 0.7> 69 15".into());
    out.finish(&st);
}

fn check_bits_static(x: u32, st: &mut Stats) {
    let f = f32::from_bits(x); let s = format!("{}", f);
    let ok_shape = !s.is_empty() && s.bytes().all(|c| c.is_ascii_digit() || c == b'.') && s.bytes().filter(|c| *c == b'.').count() <= 1 && s.as_bytes()[0].is_ascii_digit();
    if !ok_shape { st.fail(format!("[C16 oracle] f32 bits {x:#x} prints as {:?}", s), format!("bits {x}")); }
    match s.parse::<f32>() { Ok(g) if g.to_bits() == x => {}, _ => st.fail(format!("[C16 oracle] f32 bits {x:#x} does not round-trip through {:?}", s), format!("bits {x}")) }
    if x < 0x7f80_0000 { let g = f32::from_bits(x + 1); if f.partial_cmp(&g) != Some(Ordering::Less) { st.fail(format!("[C16 oracle] f32 order is not the bit-pattern order at {x:#x}"), format!("bits {x}")); } }
}
