(* Props/C17.v — PTH and SMX files round-trip and their parsers withstand any input. *)
Require Import Base.Bytes Files.Parser Gen.FilesTab Wire.Layout Files.Formats Files.FormatsProofs.
Local Open Scope N_scope.

(* any byte string: a value or an error, never a panic *)
Theorem c17_pth_total : forall bs, parse_pth bs <> Panic. Proof. exact parse_pth_total. Qed.
Theorem c17_smx_total : forall bs, parse_smx bs <> Panic. Proof. exact parse_smx_total. Qed.

(* writing a structure and parsing it again gives the same structure (any number of nodes /
   objects / points / triangles / checkpoints, any numeric payload incl. NaN bit patterns), and the
   parser consumes exactly the file *)
Theorem c17_pth_roundtrip : forall f t, wf_pth f = true -> p_pth (w_pth f ++ t) = Ok (f, t).
Proof. exact pth_roundtrip. Qed.
Theorem c17_smx_roundtrip : forall f t, wf_smx f = true -> p_smx (w_smx f ++ t) = Ok (f, t).
Proof. exact smx_roundtrip. Qed.

(* a file cut short anywhere inside its content is rejected: every cut point of every written file *)
Theorem c17_pth_truncation_rejected : forall f k, wf_pth f = true -> (k < length (w_pth f))%nat ->
  parse_pth (firstn k (w_pth f)) = Err.
Proof. exact pth_truncation_rejected. Qed.
Theorem c17_smx_truncation_rejected : forall f k, wf_smx f = true -> (k < length (w_smx f))%nat ->
  parse_smx (firstn k (w_smx f)) = Err.
Proof. exact smx_truncation_rejected. Qed.

(* ... and for ANY accepted input: what was consumed is minimal - no strict prefix of it is accepted *)
Theorem c17_pth_accepted_prefix_minimal : forall bs f r, p_pth bs = Ok (f, r) ->
  exists c, bs = c ++ r /\ forall k, (k < length c)%nat -> parse_pth (firstn k c) = Err.
Proof. exact pth_any_accepted_prefix_is_minimal. Qed.
Theorem c17_smx_accepted_prefix_minimal : forall bs f r, p_smx bs = Ok (f, r) ->
  exists c, bs = c ++ r /\ forall k, (k < length c)%nat -> parse_smx (firstn k c) = Err.
Proof. exact smx_any_accepted_prefix_is_minimal. Qed.

(* the input pays for everything delivered: nodes * node width <= input length (hostile counts such
   as 2^31-1 cannot make the parser deliver, hence keep, more than the input holds) *)
Theorem c17_pth_work_bound : forall bs f r, p_pth bs = Ok (f, r) ->
  (length (pth_nodes f) * rec_width gen_pth_node <= length bs)%nat.
Proof. exact pth_work_bound. Qed.

Example c17_example_node_width : rec_width gen_pth_node = 40%nat /\ rec_width gen_smx_point = 16%nat /\ rec_width gen_smx_triangle = 8%nat.
Proof. vm_compute. auto. Qed.
Example c17_example_negative_count : parse_pth ([76;70;83;80;84;72] ++ [0;0] ++ [255;255;255;255] ++ [0;0;0;0]) = Err.
Proof. vm_compute. reflexivity. Qed.
