//! C02 — reference frames built from the transcribed specification (dumped from Coq by ocaml/spec/driver)
//! by a table-driven encoder kept here, run through the real Codec: the frame must decode, every varied
//! field must show the value it carries when read back through the packet's public fields (via Debug:
//! numbers, enum variant names, flag names, text, durations), and the typed packet must re-encode to the
//! identical reference frame.  The same frames go to the wire model (`rt`) for the correspondence.
use std::collections::{BTreeMap, HashSet};

use crate::{common::*, net::mode_tag, wire::{decode_buf, encode_p, roundtrip, Dec, Enc}};

// ---------------------------------------------------------------- the specification dump
#[derive(Clone, Debug)]
enum K { Bool, Num(usize), Spare(usize), Text(usize), Enum(String), Flags(usize, String), Time(usize, u64), Count, Opaque(usize) }
#[derive(Clone, Debug)]
struct Field { spath: String, cnorm: String, k: K, asserted: bool, default: Vec<u8> }
#[derive(Clone, Debug)]
enum Tail { None, Arr { maxn: usize, padm: usize, padk: usize, elt: Vec<Field> }, Text { max: usize, align: usize }, Words { max: usize } }
#[derive(Clone, Debug)]
struct Struct { name: String, code: String, ty: u8, base: usize, fields: Vec<Field>, tail: Tail }
#[derive(Clone, Debug)]
struct Entry { name: String, code: String, val: u64, reserved: bool, asserted: bool, named: bool }
#[derive(Clone, Debug)]
struct Table { prefix: String, entries: Vec<Entry> }
struct Spec { structs: Vec<Struct>, tables: BTreeMap<String, Table> }

fn width(k: &K) -> usize { match k { K::Num(w) | K::Spare(w) | K::Text(w) | K::Flags(w, _) | K::Time(w, _) | K::Opaque(w) => *w, K::Enum(_) | K::Count | K::Bool => 1 } }
fn parse_kind(s: &str) -> K {
    if let Some(t) = s.strip_prefix("e:") { return K::Enum(t.into()); }
    if let Some(r) = s.strip_prefix("sp") { return K::Spare(r.parse().unwrap()); }
    if s == "c" { return K::Count; }
    if s == "b" { return K::Bool; }
    let (h, r) = s.split_at(1);
    match h {
        "n" => K::Num(r.parse().unwrap()), "t" => K::Text(r.parse().unwrap()), "o" => K::Opaque(r.parse().unwrap()),
        "f" => { let (w, t) = r.split_once(':').unwrap(); K::Flags(w.parse().unwrap(), t.into()) },
        "d" => { let (w, u) = r.split_once(':').unwrap(); K::Time(w.parse().unwrap(), u.parse().unwrap()) },
        _ => panic!("kind {s}"),
    }
}
fn parse_fields(s: &str) -> Vec<Field> {
    if s.trim().is_empty() { return vec![]; }
    s.split(';').map(|f| { let p: Vec<&str> = f.split(',').collect(); Field { spath: p[0].into(), cnorm: p[1].into(), k: parse_kind(p[2]), asserted: p[3] == "A", default: if p[4] == "-" || p[4] == "?" { vec![] } else { unhex(p[4]) } } }).collect()
}
fn load_spec(path: &str) -> Spec {
    let text = std::fs::read_to_string(path).unwrap_or_else(|_| panic!("cannot read the specification dump {path}"));
    let mut structs = vec![]; let mut tables = BTreeMap::new();
    for line in text.lines() {
        let parts: Vec<&str> = line.split(" | ").collect();
        let head: Vec<&str> = parts[0].split_whitespace().collect();
        if head[0] == "S" {
            let t = parts[2];
            let tail = if t == "none" { Tail::None } else if let Some(r) = t.strip_prefix("arr:") { let p: Vec<&str> = r.splitn(4, ':').collect(); Tail::Arr { maxn: p[0].parse().unwrap(), padm: p[1].parse().unwrap(), padk: p[2].parse().unwrap(), elt: parse_fields(p[3]) } }
                       else if let Some(r) = t.strip_prefix("text:") { let p: Vec<&str> = r.split(':').collect(); Tail::Text { max: p[0].parse().unwrap(), align: p[1].parse().unwrap() } }
                       else { Tail::Words { max: t.strip_prefix("words:").unwrap().parse().unwrap() } };
            structs.push(Struct { name: head[1].into(), code: head[2].into(), ty: head[3].parse::<u16>().unwrap() as u8, base: head[4].parse().unwrap(), fields: parse_fields(parts[1]), tail });
        } else {
            let entries = parts[1].split(';').map(|e| { let p: Vec<&str> = e.split(',').collect(); Entry { name: p[0].into(), code: if p[1] == "-" { String::new() } else { p[1].into() }, val: p[2].parse().unwrap(), reserved: p[3] == "1", asserted: p[4] == "A", named: p[5] == "1" } }).collect();
            let _ = tables.insert(head[1].to_string(), Table { prefix: if head[2] == "-" { String::new() } else { head[2].into() }, entries });
        }
    }
    Spec { structs, tables }
}
fn norm(s: &str) -> String { s.chars().filter(|c| c.is_ascii_alphanumeric()).map(|c| c.to_ascii_lowercase()).collect() }
fn name_matches(t: &Table, e: &Entry, code: &str) -> bool {
    let c = norm(code);
    c == norm(&e.name) || c == norm(&format!("{}{}", t.prefix, e.name)) || (!e.code.is_empty() && c == norm(&e.code))
}
fn required(e: &Entry) -> bool { !e.reserved && e.asserted }

// ---------------------------------------------------------------- Debug output -> flat map
#[derive(Clone, Debug)]
enum Node { Leaf(String), Rec(Vec<(String, Node)>), Tup(String, Vec<Node>), List(Vec<Node>) }
struct P<'a> { s: &'a [u8], i: usize }
impl<'a> P<'a> {
    fn ws(&mut self) { while self.i < self.s.len() && self.s[self.i] == b' ' { self.i += 1; } }
    fn peek(&self) -> u8 { if self.i < self.s.len() { self.s[self.i] } else { 0 } }
    fn ident(&mut self) -> String { let st = self.i; while self.i < self.s.len() && (self.s[self.i].is_ascii_alphanumeric() || self.s[self.i] == b'_') { self.i += 1; } String::from_utf8_lossy(&self.s[st..self.i]).into() }
    fn quoted(&mut self, q: u8) -> String { let st = self.i; self.i += 1; while self.i < self.s.len() && self.s[self.i] != q { if self.s[self.i] == b'\\' { self.i += 1; } self.i += 1; } self.i += 1; String::from_utf8_lossy(&self.s[st..self.i.min(self.s.len())]).into() }
    fn seq(&mut self, close: u8) -> Vec<Node> { let mut v = vec![]; loop { self.ws(); if self.peek() == close || self.peek() == 0 { self.i += 1; break; } v.push(self.value()); self.ws(); if self.peek() == b',' { self.i += 1; } } v }
    fn value(&mut self) -> Node {
        self.ws();
        match self.peek() {
            b'"' => Node::Leaf(self.quoted(b'"')),
            b'\'' => Node::Leaf(self.quoted(b'\'')),
            b'[' => { self.i += 1; Node::List(self.seq(b']')) },
            b'{' => { self.i += 1; Node::List(self.seq(b'}')) },
            c if c.is_ascii_alphabetic() || c == b'_' => {
                let id = self.ident(); self.ws();
                match self.peek() {
                    b'{' => { self.i += 1; let mut fs = vec![]; loop { self.ws(); if self.peek() == b'}' || self.peek() == 0 { self.i += 1; break; } let n = self.ident(); self.ws(); if self.peek() == b':' { self.i += 1; } let v = self.value(); fs.push((n, v)); self.ws(); if self.peek() == b',' { self.i += 1; } } Node::Rec(fs) },
                    b'(' => {
                        // keep flag lists ("A | B", "0x0") raw
                        let st = self.i + 1; let mut d = 0; let mut j = self.i; while j < self.s.len() { if self.s[j] == b'(' { d += 1; } else if self.s[j] == b')' { d -= 1; if d == 0 { break; } } j += 1; }
                        let raw = String::from_utf8_lossy(&self.s[st..j]).to_string();
                        let flagish = !raw.is_empty() && raw.chars().all(|c| c.is_ascii_uppercase() || c.is_ascii_digit() || c == '_' || c == '|' || c == ' ' || c == 'x' || ('a'..='f').contains(&c)) && !raw.chars().all(|c| c.is_ascii_digit());
                        if flagish && (raw.contains('|') || raw.starts_with("0x") || raw.chars().next().map_or(false, |c| c.is_ascii_uppercase())) { self.i = j + 1; Node::Tup(id, vec![Node::Leaf(raw)]) }
                        else { self.i += 1; Node::Tup(id, self.seq(b')')) }
                    },
                    _ => { // identifier possibly followed by more token characters (e.g. 1e-7 handled below, NaN, inf)
                        Node::Leaf(id) },
                }
            },
            _ => { let st = self.i; while self.i < self.s.len() && !matches!(self.s[self.i], b',' | b')' | b']' | b'}' ) { self.i += 1; } Node::Leaf(String::from_utf8_lossy(&self.s[st..self.i]).trim().to_string()) },
        }
    }
}
fn flatten(n: &Node, path: &str, out: &mut Vec<(String, Node)>) {
    match n {
        Node::Rec(fs) => for (k, v) in fs { flatten(v, &format!("{path}{}", norm(k)), out) },
        Node::Tup(_, cs) if cs.len() == 1 && !matches!(cs[0], Node::Leaf(_)) => flatten(&cs[0], path, out),
        Node::List(vs) => { out.push((path.to_string(), n.clone())); for (i, v) in vs.iter().enumerate() { flatten(v, &format!("{path}{i}"), out) } },
        _ => out.push((path.to_string(), n.clone())),
    }
}
fn debug_map(dbg: &str) -> Vec<(String, Node)> {
    let mut p = P { s: dbg.as_bytes(), i: 0 };
    let n = p.value();
    let inner = match n { Node::Tup(_, cs) if cs.len() == 1 => cs[0].clone(), x => x };
    let mut out = vec![]; flatten(&inner, "", &mut out); out
}
fn unescape_char(lit: &str) -> Option<u32> {
    let s = lit.strip_prefix('\'')?.strip_suffix('\'')?;
    if let Some(r) = s.strip_prefix("\\u{") { return u32::from_str_radix(r.strip_suffix('}')?, 16).ok(); }
    match s { "\\0" => Some(0), "\\n" => Some(10), "\\r" => Some(13), "\\t" => Some(9), "\\'" => Some(39), "\\\\" => Some(92), "\\\"" => Some(34), _ => { let mut c = s.chars(); let x = c.next()?; if c.next().is_none() { Some(x as u32) } else { None } } }
}
fn unescape_str(lit: &str) -> Option<String> {
    let s = lit.strip_prefix('"')?.strip_suffix('"')?;
    let mut o = String::new(); let mut it = s.chars().peekable();
    while let Some(c) = it.next() {
        if c != '\\' { o.push(c); continue; }
        match it.next()? { '0' => o.push('\0'), 'n' => o.push('\n'), 'r' => o.push('\r'), 't' => o.push('\t'), '\\' => o.push('\\'), '"' => o.push('"'), '\'' => o.push('\''),
            'u' => { let mut h = String::new(); it.next(); for d in it.by_ref() { if d == '}' { break; } h.push(d); } o.push(char::from_u32(u32::from_str_radix(&h, 16).ok()?)?); }, x => { o.push('\\'); o.push(x); } }
    }
    Some(o)
}
/// Duration Debug ("1.5s", "250ms", "0ns", "12µs") -> milliseconds, if it is a whole number of ms
fn duration_ms(t: &str) -> Option<u128> {
    let (num, mul_ns): (&str, u128) = if let Some(n) = t.strip_suffix("ns") { (n, 1) } else if let Some(n) = t.strip_suffix("µs") { (n, 1_000) } else if let Some(n) = t.strip_suffix("ms") { (n, 1_000_000) } else if let Some(n) = t.strip_suffix('s') { (n, 1_000_000_000) } else { return None };
    let (ip, fp) = num.split_once('.').unwrap_or((num, ""));
    let mut ns: u128 = ip.parse::<u128>().ok()? * mul_ns;
    let mut scale = mul_ns; for d in fp.chars() { scale /= 10; ns += d.to_digit(10)? as u128 * scale; }
    if ns % 1_000_000 != 0 { return None; }
    Some(ns / 1_000_000)
}

// ---------------------------------------------------------------- reference encoder
#[derive(Clone, Debug)]
enum Val { N(u64), T(Vec<u8>) }
fn le(w: usize, x: u64) -> Vec<u8> { (0..w).map(|i| (x >> (8 * i)) as u8).collect() }
fn enc_field(f: &Field, v: Option<&Val>, count: usize) -> Vec<u8> {
    match (&f.k, v) {
        (K::Spare(n), _) => vec![0; *n],
        (K::Count, _) => vec![count as u8],
        (K::Opaque(w), _) => { let mut d = f.default.clone(); d.resize(*w, 0); d },
        (K::Text(n), Some(Val::T(t))) => { let mut d = t.clone(); d.truncate(*n); d.resize(*n, 0); d },
        (K::Text(n), _) => vec![0; *n],
        (k, Some(Val::N(x))) => le(width(k), *x),
        (k, _) => vec![0; width(k)],
    }
}
struct Asg { fixed: BTreeMap<usize, Val>, rows: Vec<BTreeMap<usize, Val>>, text: Vec<u8>, words: Vec<u32> }
fn build(s: &Struct, a: &Asg, spec: &Spec, compressed: bool) -> Option<Vec<u8>> {
    let count = match &s.tail { Tail::Arr { .. } => a.rows.len(), Tail::Words { .. } => a.words.len(), _ => 0 };
    let mut body = vec![s.ty];
    for (i, f) in s.fields.iter().enumerate() { body.extend(enc_field(f, a.fixed.get(&i).or(default_val(f, spec).as_ref()), count)); }
    match &s.tail {
        Tail::None => {},
        Tail::Arr { padm, padk, elt, .. } => { for r in &a.rows { for (i, f) in elt.iter().enumerate() { body.extend(enc_field(f, r.get(&i).or(default_val(f, spec).as_ref()), 0)); } } body.extend(vec![0u8; (a.rows.len() % padm) * padk]); },
        Tail::Text { max, align } => { let mut t = a.text.clone(); while t.len() % align != 0 { t.push(0); } t.truncate(*max); body.extend(t); },
        Tail::Words { .. } => for w in &a.words { body.extend(w.to_le_bytes()); },
    }
    let len = body.len() + 1;
    if compressed { if len % 4 != 0 || len > 1020 { return None; } let mut f = vec![(len / 4) as u8]; f.extend(body); Some(f) }
    else { if len > 255 { return None; } let mut f = vec![len as u8]; f.extend(body); Some(f) }
}
fn default_val(f: &Field, spec: &Spec) -> Option<Val> {
    match &f.k { K::Enum(t) => spec.tables.get(t).and_then(|t| t.entries.iter().find(|e| required(e)).map(|e| Val::N(e.val))), _ => None }
}

// ---------------------------------------------------------------- vectors
fn interesting(f: &Field, spec: &Spec) -> Vec<Val> {
    match &f.k {
        K::Bool => vec![Val::N(1)],
        K::Num(1) => vec![Val::N(1), Val::N(0x7f), Val::N(0xff)],
        K::Num(2) => vec![Val::N(1), Val::N(0x0102), Val::N(0xfffe)],
        K::Num(4) => vec![Val::N(1), Val::N(0x0102_0304), Val::N(0x3f80_0000), Val::N(0xffff_fffe)],
        K::Num(_) => vec![Val::N(1)],
        K::Enum(t) => spec.tables[t].entries.iter().filter(|e| required(e)).map(|e| Val::N(e.val)).collect(),
        K::Flags(_, t) => { let tb = &spec.tables[t]; let bits: Vec<u64> = tb.entries.iter().filter(|e| required(e) && e.val.count_ones() == 1).map(|e| e.val).collect(); let mut v: Vec<Val> = bits.iter().map(|b| Val::N(*b)).collect(); if t == "SPCLOSE" { v = vec![Val::N(1), Val::N(0x0102), Val::N(0x0fff)]; } else if bits.len() > 1 { v.push(Val::N(bits.iter().fold(0, |a, b| a | b))); } v },
        K::Time(2, _) => vec![Val::N(1), Val::N(0x0102), Val::N(0xffff)],
        K::Time(_, _) => vec![Val::N(1), Val::N(0x0102_0304), Val::N(0xffff_ffff)],
        K::Text(n) => { let mut v = vec![Val::T(b"A".to_vec()), Val::T(b"Hello world"[..11.min(*n - 1)].to_vec())]; v.push(Val::T((0..*n - 1).map(|i| b'a' + (i % 26) as u8).collect())); v },
        _ => vec![],
    }
}

struct Obs { unobservable: u64, checked: u64 }

/// compare the value a varied field carries with what the decoded packet shows; None = agrees / not observable
fn observe(f: &Field, v: &Val, map: &[(String, Node)], key: &str, spec: &Spec, obs: &mut Obs) -> Option<String> {
    let node = match map.iter().find(|(k, _)| k == key) { Some((_, n)) => n.clone(), None => return Some(format!("the decoded packet has no field `{key}` (fields: {})", map.iter().map(|(k, _)| k.as_str()).take(12).collect::<Vec<_>>().join(" "))) };
    let leaf = match &node { Node::Leaf(s) => s.clone(), Node::Tup(_, cs) if cs.len() == 1 => match &cs[0] { Node::Leaf(s) => s.clone(), _ => String::new() }, _ => String::new() };
    let is_tup = matches!(node, Node::Tup(..));
    match (&f.k, v) {
        (K::Bool, Val::N(x)) => { obs.checked += 1; if (leaf == "true") == (*x != 0) && (leaf == "true" || leaf == "false") { None } else { Some(format!("shows {leaf} but the frame carries {x}")) } },
        (K::Num(w), Val::N(x)) => {
            let mask: u128 = if *w >= 8 { u128::MAX } else { (1u128 << (8 * w)) - 1 };
            let got: Option<u128> = if let Some(c) = unescape_char(&leaf) { Some(c as u128) } else if leaf == "true" { Some(1) } else if leaf == "false" { Some(0) }
                else if let Ok(i) = leaf.parse::<i128>() { Some((i as u128) & mask) }
                // an address shown as a dotted quad: the number it stands for (a.b.c.d = a<<24 | b<<16 | c<<8 | d, the value of the `unsigned` field)
                else if let (4, Ok(ip)) = (*w, leaf.parse::<std::net::Ipv4Addr>()) { Some(u32::from(ip) as u128) }
                else if *w == 4 && leaf.parse::<f32>().is_ok() && (leaf.contains('.') || leaf.contains('e') || leaf == "inf" || leaf == "NaN") { let want = format!("{:?}", f32::from_bits(*x as u32)); obs.checked += 1; return if want == leaf { None } else { Some(format!("float field shows {leaf}, the frame carries {want}")) } }
                else { None };
            match got { None => { obs.unobservable += 1; None }, Some(g) => { obs.checked += 1; if g == *x as u128 || (leaf == "true" && *x != 0) { None } else { Some(format!("shows {leaf} but the frame carries {x}")) } } }
        },
        (K::Enum(t), Val::N(x)) => {
            let tb = &spec.tables[t]; let e = tb.entries.iter().find(|e| e.val == *x)?;
            if !e.named { obs.unobservable += 1; return None; }
            obs.checked += 1;
            if name_matches(tb, e, &leaf) { None } else { Some(format!("value {x} ({}{}) is read back as `{leaf}`", tb.prefix, e.name)) }
        },
        (K::Flags(_, t), Val::N(x)) => {
            if t == "SPCLOSE" { obs.checked += 1; return if leaf.parse::<u64>().ok() == Some(*x & 4095) { None } else { Some(format!("shows {leaf} but the frame carries {x}")) }; }
            if t == "CARS" { return None; }   // handled by the caller (the set is shown as vehicle codes)
            if !is_tup { obs.unobservable += 1; return None; }
            let tb = &spec.tables[t];
            let got: Vec<&str> = leaf.split('|').map(|s| s.trim()).filter(|s| !s.is_empty() && *s != "0x0").collect();
            let want: Vec<&Entry> = tb.entries.iter().filter(|e| required(e) && e.val.count_ones() == 1 && e.val & *x != 0).collect();
            obs.checked += 1;
            for e in &want { if e.named && !got.iter().any(|g| name_matches(tb, e, g)) { return Some(format!("bit {} ({}{}) is not shown as set: `{leaf}`", e.val, tb.prefix, e.name)); } }
            // no other specification flag may be shown
            for g in &got { if g.starts_with("0x") { continue; } if let Some(e) = tb.entries.iter().find(|e| e.named && e.val.count_ones() == 1 && name_matches(tb, e, g)) { if e.val & *x == 0 { return Some(format!("flag {g} is shown but bit {} is not set in the frame", e.val)); } } }
            if want.iter().filter(|e| e.named).count() > got.len() { return Some(format!("{} bits set but `{leaf}` shown", want.len())); }
            None
        },
        (K::Time(_, u), Val::N(x)) => { match duration_ms(&leaf) { None => { obs.unobservable += 1; None }, Some(ms) => { obs.checked += 1; if ms == (*x as u128) * (*u as u128) { None } else { Some(format!("shows {leaf} but the frame carries {x} x {u} ms")) } } } },
        (K::Text(_), Val::T(t)) => { match unescape_str(&leaf) { None => { obs.unobservable += 1; None }, Some(s) => { obs.checked += 1; if s.as_bytes() == &t[..] { None } else { Some(format!("shows {leaf:?} but the frame carries {:?}", String::from_utf8_lossy(t))) } } } },
        _ => None,
    }
}

fn asg_id(s: &Struct, which: &str, v: &Val) -> String { format!("{} {which} {}", s.name, match v { Val::N(x) => format!("{x}"), Val::T(t) => format!("t:{}", hex(t)) }) }

fn run_vector(s: &Struct, spec: &Spec, a: &Asg, varied: Option<(&Field, &Val, String)>, what: &str, st: &mut Stats, out: &mut Out, obs: &mut Obs, seen: &mut HashSet<Vec<u8>>) {
    for compressed in [true, false] {
        let frame = match build(s, a, spec, compressed) { Some(f) => f, None => continue };
        st.evaluations += 1;
        let id = format!("{} {}", mode_tag(compressed), hex(&frame));
        let fail = |st: &mut Stats, msg: String| st.fail(format!("[C02 {}] {what}: {msg}", s.name), id.clone());
        match decode_buf(compressed, &frame) {
            Dec::Got(p, n) => {
                if n != frame.len() { fail(st, format!("decoding consumed {n} of {} bytes", frame.len())); }
                let dbg = format!("{:?}", p);
                if !dbg.starts_with(&format!("{}(", s.code)) { fail(st, format!("type {} decodes as {}", s.ty, dbg.split('(').next().unwrap_or(""))); continue; }
                if let Some((f, v, key)) = &varied {
                    let mut cars_done = false;
                    let map = debug_map(&dbg);
                    let key = resolve_key(&map, key);
                    if let (K::Flags(_, t), Val::N(x)) = (&f.k, v) { if t == "CARS" {
                        // allowed cars are shown as the set of three-letter codes, bit i <-> i-th car of the specification's list
                        const CARS: [&str; 20] = ["XFG", "XRG", "XRT", "RB4", "FXO", "LX4", "LX6", "MRT", "UF1", "RAC", "FZ5", "FOX", "XFR", "UFR", "FO8", "FXR", "XRR", "FZR", "BF1", "FBM"];
                        let shown: Vec<String> = map.iter().filter(|(k, n)| k.starts_with("carsinner") && k.len() > 9 && matches!(n, Node::Leaf(_))).map(|(_, n)| if let Node::Leaf(s) = n { s.to_uppercase() } else { String::new() }).collect();
                        let want: Vec<String> = (0..20).filter(|i| (x >> i) & 1 == 1).map(|i| CARS[i].to_string()).collect();
                        obs.checked += 1;
                        let mut a = shown.clone(); a.sort(); let mut b = want.clone(); b.sort();
                        if a != b { fail(st, format!("field Cars: bits {x:#x} are read back as {:?}, the specification says {:?}", shown, want)); }
                        cars_done = true;
                    } }
                    if !cars_done { if let Some(m) = observe(f, v, &map, &key, spec, obs) { if f.asserted { fail(st, format!("field {}: {m}", f.spath)); } } }
                }
                match encode_p(compressed, &p) {
                    Enc::Ok(e) => if e != frame { let pos = e.iter().zip(frame.iter()).position(|(a, b)| a != b).unwrap_or(e.len().min(frame.len())); fail(st, format!("the decoded packet re-encodes differently at byte {pos}: {} vs reference {}", hex(&e[pos.saturating_sub(2)..(pos + 6).min(e.len())]), hex(&frame[pos.saturating_sub(2)..(pos + 6).min(frame.len())]))); },
                    Enc::Err => { if matches!(varied, Some((Field { k: K::Num(_), .. }, _, _))) { st.bump(&format!("re-encode refused, numeric value outside the writer's documented range: {} {}", s.name, varied.as_ref().map(|v| v.0.spath.rsplit('.').next().unwrap_or("").to_string()).unwrap_or_default())); } else { fail(st, "the decoded packet is refused by the encoder".into()); } },
                    Enc::Panic => fail(st, "the decoded packet makes the encoder panic".into()),
                }
            },
            Dec::Bad(_) => fail(st, "a specification-conformant frame is rejected by the decoder".into()),
            d => fail(st, format!("decoder outcome {}", crate::wire::cls_string(&d))),
        }
        if seen.insert(frame.clone()) {
            st.distinct_nontrivial += 1;
            let mut tmp = Stats::default();
            let res = roundtrip("C02", compressed, &frame, None, &mut tmp);
            out.case(&format!("rt {} {}", mode_tag(compressed), hex(&frame)), &res);
        }
    }
}

/// array / tail keys are written "#<idx><leaf>": resolve to the unique key of the decoded packet that ends so
fn resolve_key(map: &[(String, Node)], key: &str) -> String {
    if key == "#text" { return map.iter().rev().find(|(_, n)| matches!(n, Node::Leaf(s) if s.starts_with('"'))).map(|(k, _)| k.clone()).unwrap_or("<text>".into()); }
    if let Some(suffix) = key.strip_prefix('#') {
        let c: Vec<&String> = map.iter().map(|(k, _)| k).filter(|k| k.ends_with(suffix) && k.len() > suffix.len() && k[..k.len() - suffix.len()].chars().all(|c| c.is_ascii_alphabetic() || c == '_')).collect();
        if let Some(k) = c.iter().min_by_key(|k| k.len()) { return (*k).clone(); }
        return format!("<array>{suffix}");
    }
    key.to_string()
}

pub fn run(a: &Args) {
    let dump = format!("{}/../c02_spec.txt", a.out);
    let spec = load_spec(&dump);
    if let Some(r) = &a.replay {
        // "<C|U> <framehex>": decode, re-encode, must be identical
        let t: Vec<&str> = r.split_whitespace().collect();
        let frame = unhex(t[1]);
        match decode_buf(t[0] == "C", &frame) {
            Dec::Got(p, _) => match encode_p(t[0] == "C", &p) { Enc::Ok(e) if e == frame => { println!("PASS {:?}", p); std::process::exit(0) }, Enc::Ok(e) => { println!("FAIL re-encodes as {}\n {:?}", hex(&e), p); std::process::exit(1) }, _ => { println!("FAIL the decoded packet does not encode: {:?}", p); std::process::exit(1) } },
            d => { println!("FAIL decoder outcome {}", crate::wire::cls_string(&d)); std::process::exit(1) },
        }
    }
    let mut st = Stats::default(); let mut out = Out::new(&a.out);
    let mut obs = Obs { unobservable: 0, checked: 0 };
    let mut seen = HashSet::new();
    let mut rng = Rng::new(a.seed);
    for s in &spec.structs {
        let base_text = if s.name == "IS_MSO" { b"abcde".to_vec() } else { b"Hello".to_vec() };
        let base = |rows: usize| Asg { fixed: BTreeMap::new(), rows: (0..rows).map(|_| BTreeMap::new()).collect(), text: base_text.clone(), words: vec![] };
        // 0. the all-default frame
        run_vector(s, &spec, &base(match s.tail { Tail::Arr { .. } => 1, _ => 0 }), None, "default values", &mut st, &mut out, &mut obs, &mut seen);
        // 1. every field x every interesting value
        for (i, f) in s.fields.iter().enumerate() {
            if s.name == "IS_MSO" && f.spath == "TextStart" { // must not exceed the text: 0 and 2 ("ab" is then the name)
                for x in [2u64] { let mut asg = base(0); let _ = asg.fixed.insert(i, Val::N(x)); run_vector(s, &spec, &asg, Some((f, &Val::N(x), f.cnorm.clone())), &asg_id(s, &f.spath, &Val::N(x)), &mut st, &mut out, &mut obs, &mut seen); }
                continue;
            }
            for v in interesting(f, &spec) {
                let mut asg = base(match s.tail { Tail::Arr { .. } => 1, _ => 0 }); let _ = asg.fixed.insert(i, v.clone());
                run_vector(s, &spec, &asg, Some((f, &v, f.cnorm.clone())), &asg_id(s, &f.spath, &v), &mut st, &mut out, &mut obs, &mut seen);
                st.bump(&format!("vectors:{}", match f.k { K::Bool => "boolean", K::Num(_) => "integer", K::Enum(_) => "enumerant", K::Flags(..) => "flag bit", K::Time(..) => "time", K::Text(_) => "text", _ => "other" }));
            }
        }
        // 2. the variable tail
        match &s.tail {
            Tail::Arr { maxn, elt, .. } => {
                for n in [0usize, 1, 2, 3, *maxn] {
                    // element idx carries distinct values in every field
                    for idx in [0usize, n.saturating_sub(1)] {
                        if n == 0 { run_vector(s, &spec, &base(0), None, "empty array", &mut st, &mut out, &mut obs, &mut seen); break; }
                        for (j, f) in elt.iter().enumerate() {
                            for v in interesting(f, &spec).into_iter().take(if a.thorough() { 99 } else { 2 }) {
                                let mut asg = base(n); let _ = asg.rows[idx].insert(j, v.clone());
                                run_vector(s, &spec, &asg, Some((f, &v, format!("#{idx}{}", f.cnorm))), &format!("{} element {idx} of {n}: {}", s.name, asg_id(s, &f.spath, &v)), &mut st, &mut out, &mut obs, &mut seen);
                                st.bump("vectors:array element field");
                            }
                        }
                    }
                }
            },
            Tail::Text { max, .. } => {
                for len in [1usize, 3, 5, 17, max - 1] {
                    let t: Vec<u8> = (0..len).map(|i| b'A' + ((i + rng.below(3) as usize) % 26) as u8).collect();
                    let mut asg = base(0); asg.text = t.clone();
                    if s.name == "IS_MSO" { run_vector(s, &spec, &asg, None, &format!("text of {len} bytes"), &mut st, &mut out, &mut obs, &mut seen); }
                    else { let f = Field { spath: "Text".into(), cnorm: "#text".into(), k: K::Text(*max), asserted: true, default: vec![] }; run_vector(s, &spec, &asg, Some((&f, &Val::T(t.clone()), "#text".into())), &format!("text of {len} bytes"), &mut st, &mut out, &mut obs, &mut seen); }
                    st.bump("vectors:variable text");
                }
            },
            Tail::Words { max } => {
                for n in [0usize, 1, 2, 5, (*max).min(60)] {
                    let mut asg = base(0); asg.words = (0..n).map(|i| 0x0102_0304u32.wrapping_add(i as u32 * 0x0101_0101)).collect();
                    run_vector(s, &spec, &asg, None, &format!("{n} words"), &mut st, &mut out, &mut obs, &mut seen);
                    st.bump("vectors:word array");
                }
            },
            Tail::None => {},
        }
    }
    // IS_SMALL (hand-written codec): the SMALL_ sub-type numbers and the LCL_ / LCS_ bit values inside UVal
    if let (Some(small), Some(lcl), Some(lcs)) = (spec.tables.get("SMALL"), spec.tables.get("LCL"), spec.tables.get("LCS")) {
        let mut probe = |subt: u64, uval: u64, what: String, want_variant: Option<(&Table, &Entry)>, want_flags: Option<(&Table, Vec<&Entry>)>, st: &mut Stats, obs: &mut Obs| {
            for compressed in [true, false] {
                let mut f = vec![if compressed { 2u8 } else { 8 }, 4, 0, subt as u8]; f.extend((uval as u32).to_le_bytes());
                st.evaluations += 1;
                let id = format!("{} {}", mode_tag(compressed), hex(&f));
                match decode_buf(compressed, &f) {
                    Dec::Got(p, _) => {
                        let dbg = format!("{:?}", p);
                        // Small(Small { reqi: RequestId(0), subt: Lcl(LclFlags(SET_SIGNALS | ...)) })
                        let inner = dbg.split("subt: ").nth(1).unwrap_or("").to_string();
                        let variant: String = inner.chars().take_while(|c| c.is_ascii_alphanumeric()).collect();
                        if let Some((t, e)) = want_variant { obs.checked += 1; if !name_matches(t, e, &variant) { st.fail(format!("[C02 IS_SMALL] {what}: sub-type {subt} ({}{}) is read back as `{variant}`", t.prefix, e.name), id.clone()); } }
                        if let Some((t, es)) = &want_flags {
                            let shown: Vec<&str> = inner.split(|c| c == '(' || c == ')').nth(2).unwrap_or("").split('|').map(|x| x.trim()).filter(|x| !x.is_empty()).collect();
                            obs.checked += 1;
                            for e in es { if !shown.iter().any(|g| name_matches(t, e, g)) { st.fail(format!("[C02 IS_SMALL] {what}: bit value {} ({}{}) is not shown as set: `{}`", e.val, t.prefix, e.name, inner.chars().take(80).collect::<String>()), id.clone()); } }
                            for g in &shown { if let Some(e) = t.entries.iter().find(|e| e.named && name_matches(t, e, g)) { if e.val & uval != e.val { st.fail(format!("[C02 IS_SMALL] {what}: `{g}` is shown but its bits {} are not set in UVal {uval:#x}", e.val), id.clone()); } } }
                        }
                        match encode_p(compressed, &p) { Enc::Ok(e) if e == f => {}, Enc::Ok(e) => st.fail(format!("[C02 IS_SMALL] {what}: re-encodes as {}", hex(&e)), id.clone()), _ => st.fail(format!("[C02 IS_SMALL] {what}: the decoded packet does not encode"), id.clone()) }
                    },
                    d => st.fail(format!("[C02 IS_SMALL] {what}: decoder outcome {}", crate::wire::cls_string(&d)), id.clone()),
                }
            }
        };
        for e in small.entries.iter().filter(|e| required(e)) { probe(e.val, if e.val == 0 { 0 } else { 1 }, format!("SMALL_{}", e.name), if e.named { Some((small, e)) } else { None }, None, &mut st, &mut obs); st.bump("vectors:IS_SMALL sub-type"); }
        for (tname, t, subt) in [("LCL", lcl, 10u64), ("LCS", lcs, 9u64)] {
            for e in t.entries.iter().filter(|e| required(e)) {
                let named: Vec<&Entry> = if e.named { vec![e] } else { vec![] };
                probe(subt, e.val, format!("{tname}_{} = {:#x}", e.name, e.val), None, Some((t, named)), &mut st, &mut obs);
                st.bump("vectors:IS_SMALL light / switch bits");
            }
        }
    }
    // IS_CIM (hand-written codec): Size 8, Type 64, ReqI, UCID, Mode, SubMode, SelType, Sp3 - the CIM_ mode numbers, the NRM_ / GRG_ /
    // FVM_ sub-mode numbers of the modes that have one, SelType in its own byte (only meaningful in CIM_SHIFTU), Sp3 zero
    if let (Some(cim), Some(nrm), Some(grg), Some(fvm)) = (spec.tables.get("CIM"), spec.tables.get("NRM"), spec.tables.get("GRG"), spec.tables.get("FVM")) {
        for m in cim.entries.iter().filter(|e| required(e)) {
            let subs: Vec<Option<(&Table, &Entry)>> = match m.name.as_str() { "NORMAL" => nrm.entries.iter().map(|e| Some((nrm, e))).collect(), "GARAGE" => grg.entries.iter().map(|e| Some((grg, e))).collect(), "SHIFTU" => fvm.entries.iter().map(|e| Some((fvm, e))).collect(), _ => vec![None] };
            for sub in subs { for sel in if m.name == "SHIFTU" { vec![0u8, 1, 129, 252, 255] } else { vec![0u8] } { for compressed in [true, false] {
                let sv = sub.map(|(_, e)| e.val as u8).unwrap_or(0);
                let f = vec![if compressed { 2u8 } else { 8 }, 64, 3, 5, m.val as u8, sv, sel, 0];
                st.evaluations += 1; st.bump("vectors:IS_CIM mode / sub-mode / selected type");
                let id = format!("{} {}", mode_tag(compressed), hex(&f));
                let what = format!("CIM_{}{} SelType {sel}", m.name, sub.map(|(t, e)| format!(" {}{}", t.prefix, e.name)).unwrap_or_default());
                match decode_buf(compressed, &f) {
                    Dec::Got(p, _) => {
                        let dbg = format!("{:?}", p);
                        // Cim(Cim { reqi: RequestId(3), ucid: ConnectionId(5), mode: ShiftU { submode: Buttons, seltype: 129 } })
                        if !dbg.contains("RequestId(3)") || !dbg.contains("ConnectionId(5)") { st.fail(format!("[C02 IS_CIM] {what}: ReqI 3 / UCID 5 are read back as `{}`", dbg.chars().take(90).collect::<String>()), id.clone()); }
                        let inner = dbg.splitn(2, " mode: ").nth(1).unwrap_or("").to_string();
                        let variant: String = inner.chars().take_while(|c| c.is_ascii_alphanumeric()).collect();
                        obs.checked += 1;
                        if !name_matches(cim, m, &variant) { st.fail(format!("[C02 IS_CIM] {what}: mode {} is read back as `{variant}`", m.val), id.clone()); }
                        if let Some((t, e)) = sub {
                            let rest = &inner[variant.len()..];
                            let subname: String = rest.trim_start_matches(|c: char| !c.is_ascii_alphanumeric()).trim_start_matches("submode: ").chars().take_while(|c| c.is_ascii_alphanumeric()).collect();
                            obs.checked += 1;
                            if !name_matches(t, e, &subname) { st.fail(format!("[C02 IS_CIM] {what}: sub-mode {} is read back as `{subname}`", e.val), id.clone()); }
                        }
                        if m.name == "SHIFTU" { obs.checked += 1; if !inner.contains(&format!("seltype: {sel} ")) && !inner.contains(&format!("seltype: {sel}}}")) && !inner.contains(&format!("seltype: {sel},")) { st.fail(format!("[C02 IS_CIM] {what}: byte 6 (SelType) = {sel} is read back as `{}`", inner.chars().take(70).collect::<String>()), id.clone()); } }
                        match encode_p(compressed, &p) { Enc::Ok(e) if e == f => {}, Enc::Ok(e) => st.fail(format!("[C02 IS_CIM] {what}: re-encodes as {}", hex(&e)), id.clone()), _ => st.fail(format!("[C02 IS_CIM] {what}: the decoded packet does not encode"), id.clone()) }
                    },
                    d => st.fail(format!("[C02 IS_CIM] {what}: decoder outcome {}", crate::wire::cls_string(&d)), id.clone()),
                }
            } } }
        }
    }
    // Track[6] in IS_STA / IS_RST: the short name of every configuration the library knows (its own Track::code() list), NUL-padded,
    // placed in a reference frame built from the transcription: the frame decodes, shows that configuration, and re-encodes identically
    for sname in ["IS_STA", "IS_RST"] { if let Some(sp) = spec.structs.iter().find(|x| x.name == sname) {
        let Some(ti) = sp.fields.iter().position(|f| f.spath == "Track") else { continue };
        let off = 2 + sp.fields[..ti].iter().map(|f| enc_field(f, None, 0).len()).sum::<usize>();
        for code in crate::gen::tracks::TRACK_CODES.iter() { for compressed in [true, false] {
            let asg = Asg { fixed: BTreeMap::new(), rows: vec![], text: vec![], words: vec![] };
            let Some(mut f) = build(sp, &asg, &spec, compressed) else { continue };
            if off + 6 > f.len() { continue; }
            let mut v = code.as_bytes().to_vec(); v.resize(6, 0); f[off..off + 6].copy_from_slice(&v);
            st.evaluations += 1; st.bump("vectors:track short names");
            let id = format!("{} {}", mode_tag(compressed), hex(&f));
            match decode_buf(compressed, &f) {
                Dec::Got(p, _) => {
                    let dbg = format!("{:?}", p); obs.checked += 1;
                    let shown = dbg.split("track: ").nth(1).map(|x| x.chars().take_while(|c| c.is_ascii_alphanumeric()).collect::<String>()).unwrap_or_default();
                    if shown.to_ascii_uppercase() != *code { st.fail(format!("[C02 {sname}] Track = {code:?} is read back as `{shown}`"), id.clone()); }
                    match encode_p(compressed, &p) { Enc::Ok(e) if e == f => {}, Enc::Ok(e) => st.fail(format!("[C02 {sname}] Track = {code:?} re-encodes as {}", hex(&e[off..(off + 6).min(e.len())])), id.clone()), _ => st.fail(format!("[C02 {sname}] Track = {code:?}: the decoded packet does not encode"), id.clone()) }
                },
                d => st.fail(format!("[C02 {sname}] a frame whose Track field holds the short name {code:?} is not decoded: {}", crate::wire::cls_string(&d)), id.clone()),
            }
        } }
    } }
    // text fields are NUL-terminated strings: what a peer leaves behind the terminator (a reused buffer) is not part of the text
    for sp in spec.structs.iter() { for (i, f) in sp.fields.iter().enumerate() { if let K::Text(n) = f.k { if n >= 8 { for compressed in [true, false] {
        let mut v = b"Zq\0Zqresidue-residue-residue-residue".to_vec(); v.truncate(n);
        let mut asg = Asg { fixed: BTreeMap::new(), rows: match sp.tail { Tail::Arr { .. } => vec![BTreeMap::new()], _ => vec![] }, text: vec![], words: vec![] };
        let _ = asg.fixed.insert(i, Val::T(v));
        let Some(fr) = build(sp, &asg, &spec, compressed) else { continue };
        st.evaluations += 1; st.bump("vectors:text followed by residue");
        let id = format!("{} {}", mode_tag(compressed), hex(&fr));
        match decode_buf(compressed, &fr) {
            Dec::Got(p, _) => { let d = format!("{:?}", p); obs.checked += 1; if !d.contains("\"Zq\"") || d.contains("Zqres") { st.fail(format!("[C02 {}] {} = \"Zq\" NUL residue: the decoded packet shows {}", sp.name, f.spath, d.chars().take(160).collect::<String>()), id); } },
            d => st.fail(format!("[C02 {}] a frame whose {} holds a text, its NUL and residue is not decoded: {}", sp.name, f.spath, crate::wire::cls_string(&d)), id),
        }
    } } } } }
    // RaceLaps in IS_STA / IS_RST, every byte value.  InSim.txt: "RaceLaps (rl): (0 = practice) (1-99: 1-99 laps) (100-190: 100-1000 laps,
    // laps = (rl - 100) * 10 + 100) (191-238: 1-48 hours, hours = rl - 190)"; 239..255 are not assigned (only required to decode)
    for sname in ["IS_STA", "IS_RST"] { if let Some(sp) = spec.structs.iter().find(|x| x.name == sname) {
        let Some(ti) = sp.fields.iter().position(|f| f.spath == "RaceLaps") else { continue };
        let off = 2 + sp.fields[..ti].iter().map(|f| enc_field(f, None, 0).len()).sum::<usize>();
        for rl in 0..=255u8 { for compressed in [true, false] {
            let asg = Asg { fixed: BTreeMap::new(), rows: vec![], text: vec![], words: vec![] };
            let Some(mut f) = build(sp, &asg, &spec, compressed) else { continue };
            if off >= f.len() { continue; }
            f[off] = rl;
            st.evaluations += 1; st.bump("vectors:race length bytes");
            let id = format!("{} {}", mode_tag(compressed), hex(&f));
            let want = match rl { 0 => Some("Practice".to_string()), 1..=99 => Some(format!("Laps({rl})")), 100..=190 => Some(format!("Laps({})", (rl as usize - 100) * 10 + 100)), 191..=238 => Some(format!("Hours({})", rl - 190)), _ => None };
            match decode_buf(compressed, &f) {
                Dec::Got(p, _) => {
                    let dbg = format!("{:?}", p); obs.checked += 1;
                    let shown = dbg.split("racelaps: ").nth(1).map(|x| { let e = x.find(|c: char| c == ',' || c == ' ').unwrap_or(x.len()); x[..e].to_string() }).unwrap_or_default();
                    if let Some(w) = &want { if shown != *w { st.fail(format!("[C02 {sname}] RaceLaps = {rl} means {w} but is read back as `{shown}`"), id.clone()); } }
                    if want.is_some() { match encode_p(compressed, &p) { Enc::Ok(e) if e == f => {}, Enc::Ok(e) => st.fail(format!("[C02 {sname}] RaceLaps = {rl} re-encodes as {}", e.get(off).copied().unwrap_or(0)), id.clone()), _ => st.fail(format!("[C02 {sname}] RaceLaps = {rl}: the decoded packet does not encode"), id.clone()) } }
                },
                d => st.fail(format!("[C02 {sname}] a frame whose RaceLaps byte is {rl} is not decoded: {}", crate::wire::cls_string(&d)), id.clone()),
            }
        } }
    } }
    // count bytes after histories of the typed API (IS_MAL NumM / IS_IPB NumB), IS_VER field positions for any version value
    crate::wire::typed_api_checks("C02", a, &mut st);
    // CName[4] / SkinID in every packet that carries one: the v9 rule (three alphanumerics + NUL = official car, zeros = unknown, else mod id)
    crate::c13::packet_sweep("C02", a, &mut st);
    st.add("observations:value compared through the public fields", obs.checked);
    st.add("observations:field not observable through Debug (opaque types, addresses, unnamed enumerants)", obs.unobservable);
    st.rule = "reference frames built from the dumped specification transcription by a table-driven encoder: per packet type the all-default frame, every non-spare field set to each enumerant / single flag bit and all bits / boundary integers with distinct byte patterns / texts / times, arrays of 0..max elements with element fields varied, variable texts and word arrays, both size modes; each frame must decode to its own type, show the carried value under the implementation's field name, and re-encode byte for byte; distinct = distinct reference frames".into();
    st.sample("IS_STA InGameCam 3 -> frame byte 10 = 03 -> Sta { ingamecam: Driver, .. } -> identical frame".into());
    out.finish(&st);
}
