//! C20 — WebSocket: the real `WebsocketStream` attached to a loopback tungstenite server.
//!  (a) adaptor level: `AsyncRead` driven with scripted slice sizes, chunks compared with the binary payloads
//!      and with the model's `serve`;
//!  (b) session level: `Framed` over the adaptor, every partition style of the byte stream into binary messages
//!      (one frame per message, several, split mid-frame, messages far larger than 1020 bytes), with text / ping /
//!      pong / empty binary messages interleaved; ended by a close handshake;
//!  (c) writes: each written packet must reach the server as exactly one binary message = its frame.
use std::{collections::HashSet, time::Duration};

use futures_util::{SinkExt, StreamExt};
use insim::{
    net::{tokio_impl::{Framed as AFramed, WebsocketStream}, Codec},
    Packet,
};
use tokio::{io::AsyncReadExt, net::{TcpListener, TcpStream}};
use tokio_tungstenite::{tungstenite::Message, MaybeTlsStream, WebSocketStream};

use crate::{common::*, net::*};

#[derive(Clone, Debug)]
pub enum Msg { Bin(Vec<u8>), Text, Ping, Pong, Close, Reset,
    /// a close handshake with a status code and reason (1000 normal, 1001 going away, 1008 policy, 1011 error, 1012 restart, 4000 private)
    CloseCode(u16) }
fn msg_tag(m: &Msg) -> String { match m { Msg::Bin(b) => format!("b{}", hex(b)), Msg::Text | Msg::Ping | Msg::Pong => "s".into(), Msg::Close | Msg::Reset | Msg::CloseCode(_) => "e".into() } }

/// client side of a fresh loopback WebSocket connection + the server task's result (messages it received)
async fn connect(script: Vec<Msg>) -> (WebSocketStream<MaybeTlsStream<TcpStream>>, tokio::task::JoinHandle<Vec<Message>>) {
    let listener = TcpListener::bind("127.0.0.1:0").await.unwrap();
    let addr = listener.local_addr().unwrap();
    let server = tokio::spawn(async move {
        let (tcp, _) = listener.accept().await.unwrap();
        let mut ws = tokio_tungstenite::accept_async(tcp).await.unwrap();
        let mut reset = false;
        for m in script {
            let r = match m {
                Msg::Bin(b) => ws.send(Message::Binary(b)).await,
                Msg::Text => ws.send(Message::Text("not for you".into())).await,
                Msg::Ping => ws.send(Message::Ping(vec![1, 2, 3])).await,
                Msg::Pong => ws.send(Message::Pong(vec![9])).await,
                Msg::Close => ws.close(None).await,
                Msg::CloseCode(c) => ws.close(Some(tokio_tungstenite::tungstenite::protocol::CloseFrame { code: tokio_tungstenite::tungstenite::protocol::frame::coding::CloseCode::from(c), reason: "bye".into() })).await,
                Msg::Reset => { reset = true; break; },
            };
            if r.is_err() { break; }
        }
        let mut got = vec![];
        if reset { drop(ws); return got; }
        // collect what the client sends until it goes away
        loop {
            match tokio::time::timeout(Duration::from_secs(3), ws.next()).await {
                Ok(Some(Ok(m))) => got.push(m),
                _ => break,
            }
        }
        got
    });
    let tcp = TcpStream::connect(addr).await.unwrap();
    let (ws, _) = tokio_tungstenite::client_async("ws://127.0.0.1/connect", MaybeTlsStream::Plain(tcp)).await.unwrap();
    (ws, server)
}

fn adaptor_run(rt: &tokio::runtime::Runtime, script: &[Msg], sizes: &[usize]) -> (String, Vec<usize>) {
    rt.block_on(async {
        let (ws, server) = connect(script.to_vec()).await;
        let mut s = WebsocketStream::from(ws);
        let mut buf = vec![0u8; 70_000]; let mut trace = vec![]; let mut used = vec![];
        let total: usize = script.iter().map(|m| if let Msg::Bin(b) = m { b.len() } else { 0 }).sum();
        for k in 0..total + script.len() + 8 {
            let c = sizes[k % sizes.len()]; used.push(c);
            match tokio::time::timeout(Duration::from_secs(3), AsyncReadExt::read(&mut s, &mut buf[..c])).await {
                Err(_) => { trace.push("STALLED".into()); break; },
                Ok(Ok(0)) => { trace.push("Z".into()); break; },
                Ok(Ok(n)) => trace.push(format!("D{}", hex(&buf[..n]))),
                Ok(Err(e)) => { trace.push(format!("ERR:{:?}", e.kind())); break; },
            }
        }
        drop(s);
        let _ = server.await;
        (trace.join(" "), used)
    })
}

fn adaptor_expect(script: &[Msg], used: &[usize]) -> String {
    // the adaptor refills only when its buffer is empty: chunks never span two binary messages
    let mut out = vec![]; let mut k = 0;
    'outer: for m in script {
        if let Msg::Bin(d) = m {
            let mut i = 0;
            while i < d.len() { if k >= used.len() { break 'outer; } let n = used[k].min(d.len() - i); k += 1; out.push(format!("D{}", hex(&d[i..i + n]))); i += n; }
        }
    }
    out.push("Z".into());
    out.join(" ")
}

/// returns (trace, binary messages the server received, other messages the server received)
fn session_run(rt: &tokio::runtime::Runtime, fr: &Frames, idx: &RepIndex, verify: bool, script: &[Msg]) -> (Vec<String>, Vec<Vec<u8>>, usize) {
    rt.block_on(async {
        let (ws, server) = connect(script.to_vec()).await;
        let mut f = AFramed::new(Box::new(WebsocketStream::from(ws)), Codec::new(mode_of(fr.compressed)));
        f.verify_version(verify);
        let mut trace = vec![];
        for _ in 0..fr.frames.len() + 8 {
            watch_arm("tokio Framed::read over the WebSocket adaptor"); let rr = tokio::time::timeout(Duration::from_secs(3), f.read()).await; watch_disarm();
            match rr {
                Err(_) => { trace.push("STALLED".into()); break; },
                Ok(Ok(p)) => trace.push(idx.token(&p)),
                Ok(Err(e)) => { let (tok, fin) = err_token(&e); trace.push(tok.clone()); if fin || is_transient_tok(&tok) { break; } },
            }
        }
        drop(f);
        let got = server.await.unwrap_or_default();
        let bins: Vec<Vec<u8>> = got.iter().filter_map(|m| if let Message::Binary(b) = m { Some(b.clone()) } else { None }).collect();
        let others = got.iter().filter(|m| !matches!(m, Message::Binary(_) | Message::Close(_) | Message::Pong(_))).count();
        (trace, bins, others)
    })
}

/// cut the stream into binary messages: style 0 one frame per message, 1 several whole frames, 2 random cuts (mid-frame),
/// 3 big messages (1021..20000 bytes), 4 tiny (1..3 bytes), 5 everything in one message
fn partition(rng: &mut Rng, frames: &[Vec<u8>], style: u64) -> Vec<Vec<u8>> {
    let stream: Vec<u8> = frames.concat();
    let mut out = vec![];
    match style {
        0 => return frames.to_vec(),
        1 => { let mut i = 0; while i < frames.len() { let n = rng.range(1, 9) as usize; let j = (i + n).min(frames.len()); out.push(frames[i..j].concat()); i = j; } return out; },
        5 => return vec![stream],
        _ => {},
    }
    let mut i = 0;
    while i < stream.len() {
        let n = match style { 2 => rng.range(1, 300), 3 => rng.range(1021, 20000), _ => rng.range(1, 3) } as usize;
        let j = (i + n).min(stream.len()); out.push(stream[i..j].to_vec()); i = j;
    }
    out
}

fn interleave(rng: &mut Rng, bins: Vec<Vec<u8>>, rate: u64, ending: Msg) -> Vec<Msg> {
    let mut s = vec![];
    let noise = |rng: &mut Rng, s: &mut Vec<Msg>| { while rate > 0 && rng.chance(rate, 100) { s.push(match rng.below(4) { 0 => Msg::Text, 1 => Msg::Ping, 2 => Msg::Pong, _ => Msg::Bin(vec![]) }); } };
    for b in bins { noise(rng, &mut s); s.push(Msg::Bin(b)); }
    noise(rng, &mut s);
    s.push(ending);
    s
}

fn case_from_id(id: &str) -> Option<(bool, bool, Vec<Vec<u8>>, Vec<Msg>)> {
    // "session <C|U> <seed> <nframes> <style> <noise rate>"
    let t: Vec<&str> = id.split_whitespace().collect();
    if t.len() != 6 || t[0] != "session" { return None; }
    let compressed = t[1] == "C"; let seed: u64 = t[2].parse().ok()?; let n: usize = t[3].parse().ok()?; let style: u64 = t[4].parse().ok()?; let rate: u64 = t[5].parse().ok()?;
    let mut rng = Rng::new(seed);
    let pool = frame_pool(&mut rng, compressed);
    let frames: Vec<Vec<u8>> = (0..n).map(|_| rng.pick(&pool).clone()).collect();
    let fr = Frames::new(compressed, frames);
    let bins = partition(&mut rng, &fr.frames, style);
    let script = interleave(&mut rng, bins, rate, Msg::Close);
    Some((compressed, seed % 2 == 0, fr.frames, script))
}

fn run_session_case(id: &str, rt: &tokio::runtime::Runtime, st: &mut Stats, out: Option<&mut Out>, rng: &mut Rng) -> bool {
    let (compressed, verify, frames, script) = case_from_id(id).unwrap(); set_case(id);
    let fr = Frames::new(compressed, frames); let idx = RepIndex::new(&fr);
    let (trace, bins, others) = session_run(rt, &fr, &idx, verify, &script);
    st.evaluations += 1;
    let mut ok = true;
    let want: Vec<String> = fr.expected(verify).into_iter().filter(|t| !t.starts_with('W')).collect();
    if trace != want {
        let pos = trace.iter().zip(want.iter()).position(|(a, b)| a != b).unwrap_or(trace.len().min(want.len()));
        st.fail(format!("[C20] result #{pos} of {}: got {:?} want {:?} ({} messages, {} binary)", want.len(), trace.get(pos), want.get(pos), script.len(), script.iter().filter(|m| matches!(m, Msg::Bin(_))).count()), id.to_string());
        ok = false;
    }
    let pong: Vec<u8> = if compressed { vec![1, 3, 0, 0] } else { vec![4, 3, 0, 0] };
    let nka = fr.class.iter().filter(|k| **k == Class::Keep).count();
    if ok && (bins.len() != nka || bins.iter().any(|d| *d != pong) || others != 0) {
        st.fail(format!("[C20] server received {} binary messages {:?} (+{} other) for {} keep-alives", bins.len(), bins.iter().take(3).map(|d| hex(d)).collect::<Vec<_>>(), others, nka), id.to_string());
        ok = false;
    }
    if let Some(out) = out {
        let total: usize = fr.frames.iter().map(|f| f.len()).sum();
        let (lo, hi) = match rng.below(3) { 0 => (3u64, 40u64), 1 => (100, 1500), _ => (1019, 1019) };
        let sizes: Vec<String> = (0..total / (lo as usize + 1) + script.len() + 4).map(|_| rng.range(lo, hi).to_string()).collect();
        let line = format!("asession {} {} W 0 {} | {} | {}", mode_tag(compressed), verify as u8, fr.table(), script.iter().map(msg_tag).collect::<Vec<_>>().join(" "), sizes.join(" "));
        let mut t2 = vec![]; for tok in &trace { if let Some(i) = tok.strip_prefix('P').and_then(|s| s.parse::<usize>().ok()) { if fr.class[i] == Class::Keep { t2.push(format!("W{}", hex(&pong))); } } t2.push(tok.clone()); }
        out.case(&line, &t2.join(" "));
    }
    let nb = script.iter().filter(|m| matches!(m, Msg::Bin(b) if !b.is_empty())).count();
    st.bump(&format!("frames_per_binary_message:{}", if nb == 0 { "-" } else if fr.frames.len() > nb { ">1 (several per message / big messages)" } else if fr.frames.len() == nb { "1" } else { "<1 (frames split across messages)" }));
    st.add("messages:non-binary or empty", script.iter().filter(|m| !matches!(m, Msg::Bin(b) if !b.is_empty())).count() as u64 - 1);
    st.bump(&format!("max_message:{}", match script.iter().map(|m| if let Msg::Bin(b) = m { b.len() } else { 0 }).max().unwrap_or(0) { 0..=255 => "<=255", 256..=1020 => "<=1020", 1021..=6120 => "<=6120", _ => ">6120" }));
    ok
}

fn write_case(rt: &tokio::runtime::Runtime, compressed: bool, packets: &[Packet]) -> (Vec<Vec<u8>>, usize, Vec<Vec<u8>>) {
    rt.block_on(async {
        let (ws, server) = connect(vec![]).await;
        let mut f = AFramed::new(Box::new(WebsocketStream::from(ws)), Codec::new(mode_of(compressed)));
        let mut want = vec![];
        for p in packets { if let Some(fr) = encode(compressed, p) { if let Ok(Ok(())) = tokio::time::timeout(Duration::from_secs(3), f.write(p.clone())).await { want.push(fr); } } }
        // let everything reach the server, then go away
        tokio::time::sleep(Duration::from_millis(20)).await;
        drop(f);
        let got = server.await.unwrap_or_default();
        let bins: Vec<Vec<u8>> = got.iter().filter_map(|m| if let Message::Binary(b) = m { Some(b.clone()) } else { None }).collect();
        let others = got.iter().filter(|m| !matches!(m, Message::Binary(_) | Message::Close(_))).count();
        (bins, others, want)
    })
}

/// (c') writes under back-pressure: small socket buffers and a server that does not read for a while, so that the transport's
/// flush inside poll_write has to wait; the server then drains.  Every written packet must still arrive as exactly one binary
/// message holding its frame, in order.  Returns (binary messages seen by the server, frames written, writes that had to wait).
pub fn backpressure_case(rt: &tokio::runtime::Runtime, compressed: bool, n: usize) -> (Vec<Vec<u8>>, Vec<Vec<u8>>, usize) {
    use insim::{identifiers::RequestId, insim::{Mst, Tiny, TinyType}};
    rt.block_on(async {
        let lsock = tokio::net::TcpSocket::new_v4().unwrap();
        let _ = lsock.set_recv_buffer_size(4096);
        lsock.bind("127.0.0.1:0".parse().unwrap()).unwrap();
        let listener = lsock.listen(1).unwrap();
        let addr = listener.local_addr().unwrap();
        let (go_tx, go_rx) = tokio::sync::oneshot::channel::<()>();
        let server = tokio::spawn(async move {
            let (tcp, _) = listener.accept().await.unwrap();
            let mut ws = tokio_tungstenite::accept_async(tcp).await.unwrap();
            // do not read until the client says it has stalled (or finished)
            let _ = tokio::time::timeout(Duration::from_secs(5), go_rx).await;
            let mut got = vec![];
            loop { match tokio::time::timeout(Duration::from_millis(1500), ws.next()).await { Ok(Some(Ok(Message::Binary(b)))) => got.push(b), Ok(Some(Ok(_))) => {}, _ => break } }
            got
        });
        let csock = tokio::net::TcpSocket::new_v4().unwrap();
        let _ = csock.set_send_buffer_size(4096);
        let tcp = csock.connect(addr).await.unwrap();
        let _ = tcp.set_nodelay(true);
        let (ws, _) = tokio_tungstenite::client_async("ws://127.0.0.1/connect", MaybeTlsStream::Plain(tcp)).await.unwrap();
        let mut f = AFramed::new(Box::new(WebsocketStream::from(ws)), Codec::new(mode_of(compressed)));
        let mut want = vec![]; let mut waited = 0usize; let mut go = Some(go_tx);
        for i in 0..n {
            let p = Packet::Mst(Mst { reqi: RequestId((i % 255) as u8 + 1), msg: format!("message number {i} {}", "x".repeat(i % 40)) });
            let Some(fr) = encode(compressed, &p) else { continue };
            // a write that does not complete at once is waiting for the transport: let the server start reading
            let mut w = Box::pin(f.write(p.clone()));
            match tokio::time::timeout(Duration::from_millis(30), w.as_mut()).await {
                Ok(Ok(())) => want.push(fr),
                Ok(Err(_)) => break,
                Err(_) => { waited += 1; if let Some(g) = go.take() { let _ = g.send(()); } match tokio::time::timeout(Duration::from_secs(5), w.as_mut()).await { Ok(Ok(())) => want.push(fr), _ => break } },
            }
        }
        if let Some(g) = go.take() { let _ = g.send(()); }
        // push out what the transport may still hold back, then go away
        for _ in 0..40 { let t = Packet::Tiny(Tiny { reqi: RequestId(0), subt: TinyType::None }); if let Some(fr) = encode(compressed, &t) { if let Ok(Ok(())) = tokio::time::timeout(Duration::from_secs(3), f.write(t)).await { want.push(fr); } } tokio::time::sleep(Duration::from_millis(2)).await; }
        tokio::time::sleep(Duration::from_millis(100)).await;
        drop(f);
        let got = server.await.unwrap_or_default();
        (got, want, waited)
    })
}

/// keep-alives over the WebSocket transport while the peer is slow to read (small socket buffers): the peer sends a burst of n
/// keep-alives mixed with TINY_NONE packets that carry a request id (not keep-alives) and does not read for a while; the client reads
/// them all; the peer then drains what the client wrote.  Returns (keep-alives sent, keep-alives handed to the caller, reply messages
/// the peer received, other binary messages the peer received).
pub fn ws_keepalive_case(rt: &tokio::runtime::Runtime, compressed: bool, n: usize) -> (usize, usize, usize, usize) { ws_keepalive_case_with(rt, compressed, n, None) }
/// cancel_us = Some(t): the caller wraps every read() in its own timeout of t microseconds, dropping the future whenever it fires (C19)
pub fn ws_keepalive_case_with(rt: &tokio::runtime::Runtime, compressed: bool, n: usize, cancel_us: Option<u64>) -> (usize, usize, usize, usize) {
    rt.block_on(async {
        let lsock = tokio::net::TcpSocket::new_v4().unwrap();
        let _ = lsock.set_recv_buffer_size(4096); let _ = lsock.set_send_buffer_size(4096);
        lsock.bind("127.0.0.1:0".parse().unwrap()).unwrap();
        let listener = lsock.listen(1).unwrap();
        let addr = listener.local_addr().unwrap();
        let ka: Vec<u8> = raw_frame(compressed, 3, 0, &[0]); let other: Vec<u8> = raw_frame(compressed, 3, 7, &[0]);
        let (ka2, other2) = (ka.clone(), other.clone());
        let server = tokio::spawn(async move {
            let (tcp, _) = listener.accept().await.unwrap();
            let ws = tokio_tungstenite::accept_async(tcp).await.unwrap();
            let (mut tx, mut rx) = ws.split();
            let mut sent = 0usize;
            // burst: ~10 frames per message
            let mut i = 0; while i < n { let mut m = vec![]; for j in 0..10 { if i + j < n { if (i + j) % 10 == 9 { m.extend_from_slice(&other2); } else { m.extend_from_slice(&ka2); sent += 1; } } } i += 10; if tx.send(Message::Binary(m)).await.is_err() { break; } }
            tokio::time::sleep(Duration::from_millis(300)).await;
            // a few spaced keep-alives push out whatever the client still holds back
            let mut replies = 0usize; let mut others = 0usize;
            // (the adaptor hands a message to tungstenite and does not wait for the socket: what is still queued leaves on the connection's
            // next activity, so the peer keeps the connection busy until every reply has arrived or nothing more comes)
            for round in 0..80 { if tx.send(Message::Binary(ka2.clone())).await.is_ok() { sent += 1; }
                loop { match tokio::time::timeout(Duration::from_millis(if round < 3 { 250 } else { 60 }), rx.next()).await { Ok(Some(Ok(Message::Binary(b)))) => { if b == ka2 { replies += 1 } else { others += 1 } }, Ok(Some(Ok(_))) => {}, _ => break } }
                if round >= 3 && replies >= sent { break; } }
            let _ = tx.close().await;
            (sent, replies, others)
        });
        let csock = tokio::net::TcpSocket::new_v4().unwrap();
        let _ = csock.set_send_buffer_size(4096); let _ = csock.set_recv_buffer_size(4096);
        let tcp = csock.connect(addr).await.unwrap();
        let _ = tcp.set_nodelay(true);
        let (ws, _) = tokio_tungstenite::client_async("ws://127.0.0.1/connect", MaybeTlsStream::Plain(tcp)).await.unwrap();
        let mut f = AFramed::new(Box::new(WebsocketStream::from(ws)), Codec::new(mode_of(compressed)));
        let mut handed = 0usize;
        match cancel_us {
            None => loop { match tokio::time::timeout(Duration::from_secs(4), f.read()).await { Ok(Ok(p)) => { if p.maybe_pong().is_some() { handed += 1; } }, _ => break } },
            Some(us) => { let mut last = std::time::Instant::now();
                loop { match tokio::time::timeout(Duration::from_micros(us), f.read()).await { Ok(Ok(p)) => { last = std::time::Instant::now(); if p.maybe_pong().is_some() { handed += 1; } }, Ok(Err(_)) => break, Err(_) => { if last.elapsed() > Duration::from_secs(4) { break; } } } } },
        }
        drop(f);
        let (sent, replies, others) = server.await.unwrap_or((0, 0, 0));
        let _ = ka; let _ = other;
        (sent, handed, replies, others)
    })
}

/// the caller reads exactly the n keep-alives of one message and then does NOTHING (no further read, no write) for a while: all n replies must
/// be with the peer all the same - a reply is sent when it is written, not when the caller next touches the connection.  Returns the replies received.
pub fn ws_idle_after_reads_case(rt: &tokio::runtime::Runtime, compressed: bool, n: usize) -> usize {
    rt.block_on(async {
        let listener = tokio::net::TcpListener::bind("127.0.0.1:0").await.unwrap();
        let addr = listener.local_addr().unwrap();
        let ka: Vec<u8> = raw_frame(compressed, 3, 0, &[0]); let ka2 = ka.clone();
        let server = tokio::spawn(async move {
            let (tcp, _) = listener.accept().await.unwrap();
            let ws = tokio_tungstenite::accept_async(tcp).await.unwrap();
            let (mut tx, mut rx) = ws.split();
            let mut m = vec![]; for _ in 0..n { m.extend_from_slice(&ka2); }
            let _ = tx.send(Message::Binary(m)).await;
            let mut replies = 0usize; let t0 = std::time::Instant::now();
            while t0.elapsed() < Duration::from_millis(900) { match tokio::time::timeout(Duration::from_millis(150), rx.next()).await { Ok(Some(Ok(Message::Binary(b)))) => { replies += b.len() / ka2.len().max(1); }, Ok(Some(Ok(_))) => {}, Ok(_) => break, Err(_) => {} } }
            replies
        });
        let tcp = tokio::net::TcpStream::connect(addr).await.unwrap();
        let (ws, _) = tokio_tungstenite::client_async("ws://127.0.0.1/connect", MaybeTlsStream::Plain(tcp)).await.unwrap();
        let mut f = AFramed::new(Box::new(WebsocketStream::from(ws)), Codec::new(mode_of(compressed)));
        for _ in 0..n { let _ = tokio::time::timeout(Duration::from_secs(3), f.read()).await; }
        tokio::time::sleep(Duration::from_millis(1100)).await;   // the caller is busy elsewhere; the connection stays open
        let replies = server.await.unwrap_or(0);
        drop(f);
        replies
    })
}

/// a lock-step WebSocket peer: each binary message holds 37 keep-alives (148 / 37 bytes, so that messages keep straddling the end of the
/// connection's 6120-byte receive buffer), and the next message is sent only when every reply to the previous ones has arrived.
/// Returns (keep-alives sent, handed to the caller, replies the peer received, rounds completed).
pub fn ws_lockstep_case(rt: &tokio::runtime::Runtime, compressed: bool, rounds: usize, cancel_us: Option<u64>) -> (usize, usize, usize, usize) {
    rt.block_on(async {
        let listener = tokio::net::TcpListener::bind("127.0.0.1:0").await.unwrap();
        let addr = listener.local_addr().unwrap();
        let ka: Vec<u8> = raw_frame(compressed, 3, 0, &[0]); let ka2 = ka.clone();
        let server = tokio::spawn(async move {
            let (tcp, _) = listener.accept().await.unwrap();
            let ws = tokio_tungstenite::accept_async(tcp).await.unwrap();
            let (mut tx, mut rx) = ws.split();
            let mut sent = 0usize; let mut replies = 0usize; let mut done = 0usize;
            'rounds: for _ in 0..rounds {
                // 37 frames: keep-alives and, at positions that differ from round to round, TINY_NONE packets with request ids 1..37 (not keep-alives):
                // the head of a message never looks like its tail
                let mut m = vec![]; let mut kas = 0; for j in 0..37usize { if (j * j + done) % 3 == 0 { m.extend_from_slice(&raw_frame(compressed, 3, j as u8 + 1, &[0])); } else { m.extend_from_slice(&ka2); kas += 1; } }
                if tx.send(Message::Binary(m)).await.is_err() { break; }
                sent += kas;
                while replies < sent { match tokio::time::timeout(Duration::from_millis(8000), rx.next()).await { Ok(Some(Ok(Message::Binary(b)))) => { replies += b.len() / ka2.len().max(1); }, Ok(Some(Ok(_))) => {}, _ => break 'rounds } }
                done += 1;
            }
            let _ = tx.close().await;
            (sent, replies, done)
        });
        let tcp = tokio::net::TcpStream::connect(addr).await.unwrap();
        let _ = tcp.set_nodelay(true);
        let (ws, _) = tokio_tungstenite::client_async("ws://127.0.0.1/connect", MaybeTlsStream::Plain(tcp)).await.unwrap();
        let mut f = AFramed::new(Box::new(WebsocketStream::from(ws)), Codec::new(mode_of(compressed)));
        let mut handed = 0usize; let mut last = std::time::Instant::now(); let (mut round, mut pos, mut order_ok) = (0usize, 0usize, true);
        loop { match tokio::time::timeout(Duration::from_micros(cancel_us.unwrap_or(3_000_000)), f.read()).await { Ok(Ok(p)) => { last = std::time::Instant::now();
                // every packet in the position the peer put it
                let want_ka = (pos * pos + round) % 3 != 0; let is_ka = p.maybe_pong().is_some();
                let reqi_ok = match &p { Packet::Tiny(t) => is_ka || t.reqi.0 as usize == pos + 1, _ => false };
                if want_ka != is_ka || !reqi_ok { order_ok = false; }
                pos += 1; if pos == 37 { pos = 0; round += 1; }
                if is_ka { handed += 1; } }, Ok(Err(_)) => break, Err(_) => if last.elapsed() > Duration::from_secs(3) { break; } } }
        drop(f);
        let (sent, replies, done) = server.await.unwrap_or((0, 0, 0));
        // packets out of place count as a keep-alive mismatch for the callers
        (sent, if order_ok { handed } else { handed + 1_000_000 }, replies, done)
    })
}

pub fn run(a: &Args) {
    let rt = crate::c08::io_runtime();
    if let Some(r) = &a.replay {
        let mut st = Stats::default(); let mut rng = Rng::new(1);
        if r.starts_with("session ") {
            let ok = run_session_case(r, &rt, &mut st, None, &mut rng);
            if ok { println!("PASS {r}"); std::process::exit(0) } else { println!("FAIL {}", st.failures.first().map(|f| f.1.clone()).unwrap_or_default()); std::process::exit(1) }
        }
        if let Some(rest) = r.strip_prefix("adaptor ") {
            // "adaptor <message lens comma; t = text> | <sizes comma>"
            let t: Vec<&str> = rest.split_whitespace().collect();
            let mut script: Vec<Msg> = t[0].split(',').enumerate().map(|(i, l)| if l == "t" { Msg::Text } else { Msg::Bin((0..l.parse::<usize>().unwrap()).map(|j| (i * 31 + j) as u8).collect()) }).collect();
            script.push(Msg::Close);
            let sz: Vec<usize> = t[2].split(',').map(|s| s.parse().unwrap()).collect();
            let (tr, used) = adaptor_run(&rt, &script, &sz);
            let want = adaptor_expect(&script, &used);
            if tr == want { println!("PASS"); std::process::exit(0) } else { println!("FAIL adaptor chunks differ from the binary payloads\n got  {}\n want {}", &tr[..tr.len().min(300)], &want[..want.len().min(300)]); std::process::exit(1) }
        }
        if let Some(rest) = r.strip_prefix("backpressure ") {
            let t: Vec<&str> = rest.split_whitespace().collect();
            let (got, want, waited) = backpressure_case(&rt, t[0] == "C", t[1].parse().unwrap());
            let m = got.len().min(want.len());
            match (0..m).find(|i| got[*i] != want[*i]) { Some(pos) => { println!("FAIL [C20] {waited} writes waited; message #{pos} is {} but the frame is {}", hex(&got[pos]), hex(&want[pos])); std::process::exit(1) }, None => if got.len() > want.len() { println!("FAIL more messages than writes"); std::process::exit(1) } else { println!("PASS ({waited} writes waited, {m} messages compared)"); std::process::exit(0) } }
        }
        if let Some(rest) = r.strip_prefix("write ") {
            let (bins, others, want) = write_case(&rt, rest.trim() == "C", &crate::gen::kinds::default_packets());
            if bins == want && others == 0 { println!("PASS"); std::process::exit(0) } else { println!("FAIL server received {} binary (+{} other) messages for {} writes", bins.len(), others, want.len()); std::process::exit(1) }
        }
        println!("bad replay input"); std::process::exit(2);
    }
    let mut rng = Rng::new(a.seed);
    let mut st = Stats::default(); let mut out = Out::new(&a.out);
    let mut distinct = HashSet::new();
    // (a) adaptor level
    let na = if a.thorough() { 400 } else { 50 };
    for i in 0..na {
        let nm = match i % 3 { 0 => rng.range(1, 3), 1 => rng.range(3, 10), _ => rng.range(8, 24) } as usize;
        let mut script: Vec<Msg> = vec![]; let mut spec = vec![];
        for k in 0..nm {
            match rng.below(10) {
                0 => { script.push(Msg::Text); spec.push("t".to_string()); },
                1 => { script.push(Msg::Bin(vec![])); spec.push("0".to_string()); },
                2 => { script.push(if rng.chance(1, 2) { Msg::Ping } else { Msg::Pong }); spec.push("t".to_string()); },
                x => { let l = match x { 3 => rng.range(1021, 9000), 4 => rng.range(20000, 66000), 5 => rng.range(1, 8), 6 => 1020, _ => rng.range(4, 1020) } as usize; script.push(Msg::Bin((0..l).map(|j| (k * 31 + j) as u8).collect())); spec.push(l.to_string()); },
            }
        }
        script.push(Msg::Close);
        let style = rng.below(5);
        let szs: Vec<usize> = (0..64).map(|_| match style { 0 => rng.range(1, 16), 1 => rng.range(1, 1100), 2 => *rng.pick(&[1u64, 2, 3, 4, 120, 1019, 1020, 1021, 6120]), 3 => 6120, _ => rng.range(200, 7000) } as usize).collect();
        // 1-byte slices only on short scripts
        let total: usize = script.iter().map(|m| if let Msg::Bin(b) = m { b.len() } else { 0 }).sum();
        let szs = if total > 30_000 { szs.iter().map(|s| (*s).max(500)).collect() } else { szs };
        let (tr, used) = adaptor_run(&rt, &script, &szs);
        st.evaluations += 1;
        let want = adaptor_expect(&script, &used);
        let id = format!("adaptor {} | {}", spec.join(","), szs.iter().map(|l| l.to_string()).collect::<Vec<_>>().join(","));
        if tr != want { st.fail(format!("[C20 adaptor] chunks handed to the connection differ from the binary payloads: got {} want {}", &tr[..tr.len().min(120)], &want[..want.len().min(120)]), id.clone()); }
        if total < 12_000 {
            let line = format!("adaptor W 0 {} | {}", script.iter().map(msg_tag).collect::<Vec<_>>().join(" "), used.iter().map(|c| (c - 1).to_string()).collect::<Vec<_>>().join(" "));
            out.case(&line, &format!("{tr} | - 0"));
        }
        if script.iter().any(|m| matches!(m, Msg::Bin(b) if b.len() > 1020)) && distinct.insert(fnv(&id)) { st.distinct_nontrivial += 1; }
        st.bump("adaptor scripts");
    }
    // (b) sessions
    let n = if a.thorough() { 400 } else { 40 };
    for compressed in [true, false] {
        for i in 0..n {
            let nframes = match i % 5 { 0 => rng.range(1, 5), 1 => rng.range(5, 40), 2 | 3 => rng.range(40, 200), _ => rng.range(200, 700) } as usize;
            let id = format!("session {} {} {} {} {}", mode_tag(compressed), rng.next() % 1_000_000, nframes, i % 6, *rng.pick(&[0u64, 0, 10, 40, 93]));   // 93: runs of 16 and more control / text messages between two binary ones are common
            let small = nframes < 200;
            let _ = run_session_case(&id, &rt, &mut st, if small { Some(&mut out) } else { None }, &mut rng);
            if i % 6 >= 2 && i % 6 <= 4 && nframes >= 2 && distinct.insert(fnv(&id)) { st.distinct_nontrivial += 1; }
        }
    }
    // closure: a close handshake in the middle of a frame, and a connection dropped without one
    for (name, ending) in [("close handshake mid-frame", Msg::Close), ("TCP reset without a close handshake", Msg::Reset), ("close 1000", Msg::CloseCode(1000)), ("close 1001", Msg::CloseCode(1001)), ("close 1008", Msg::CloseCode(1008)), ("close 1011", Msg::CloseCode(1011)), ("close 1012", Msg::CloseCode(1012)), ("close 4000", Msg::CloseCode(4000))] {
        let fr = Frames::new(true, vec![raw_frame(true, 3, 1, &[1]), raw_frame(true, 3, 2, &[2])]); let idx = RepIndex::new(&fr);
        let script = vec![Msg::Bin(fr.frames[0].clone()), Msg::Bin(fr.frames[1][..2].to_vec()), ending.clone()];
        set_case("closure");
        let (trace, _, _) = session_run(&rt, &fr, &idx, false, &script);
        st.evaluations += 1;
        st.notes.push(format!("{name}: reads return {}", trace.join(" ")));
        if matches!(ending, Msg::Close | Msg::CloseCode(_)) && trace != vec!["P0".to_string(), "DC".to_string()] { st.fail(format!("[C20] {name} after a partial frame: got {:?}, want [P0, DC] (whatever its status code, a close handshake is the end of the stream)", trace), "closure".into()); }
        if trace.first().map(|s| s.as_str()) != Some("P0") || trace.len() != 2 { st.fail(format!("[C20] {name}: got {:?}, want the first packet then one terminal result", trace), "closure".into()); }
    }
    // (c') writes under back-pressure (the peer is slow to read; small socket buffers)
    for compressed in [true, false] {
        let n = if a.thorough() { 30_000 } else { 6_000 };
        let (got, want, waited) = backpressure_case(&rt, compressed, n);
        st.evaluations += want.len() as u64; st.distinct_nontrivial += 1;
        // the transport may legitimately still hold the very last messages when the client goes away: compare the common prefix,
        // and require that nearly everything arrived
        let m = got.len().min(want.len());
        if let Some(pos) = (0..m).find(|i| got[*i] != want[*i]) {
            st.fail(format!("[C20/C06 write] under back-pressure ({waited} writes had to wait) binary message #{pos} seen by the server is {} but the frame of write #{pos} is {}{}", hex(&got[pos]), hex(&want[pos]), if pos > 0 && got[pos] == want[pos - 1] { " (a second copy of the previous frame)" } else { "" }), format!("backpressure {} {n}", mode_tag(compressed)));
        } else if got.len() > want.len() { st.fail(format!("[C20/C06 write] the server saw {} binary messages for {} writes", got.len(), want.len()), format!("backpressure {} {n}", mode_tag(compressed))); }
        else if got.len() + 64 < want.len() { st.notes.push(format!("back-pressure run ({} mode): only {} of {} messages reached the server before the client went away", mode_tag(compressed), got.len(), want.len())); }
        st.notes.push(format!("back-pressure run ({} mode): {} writes, {} had to wait for the transport, {} messages compared", mode_tag(compressed), want.len(), waited, m));
        st.add("writes under back-pressure", want.len() as u64);
    }
    // (c) writes
    for compressed in [true, false] {
        let packets: Vec<Packet> = crate::gen::kinds::default_packets();
        let (bins, others, want) = write_case(&rt, compressed, &packets);
        st.evaluations += want.len() as u64;
        if bins != want || others != 0 {
            let pos = bins.iter().zip(want.iter()).position(|(g, w)| g != w).unwrap_or(bins.len().min(want.len()));
            st.fail(format!("[C20 write] message #{pos}: server received {:?} but the frame is {:?} ({} binary + {} other messages for {} writes)", bins.get(pos).map(|d| hex(d)), want.get(pos).map(|d| hex(d)), bins.len(), others, want.len()), format!("write {}", mode_tag(compressed)));
        }
        for w in want.iter().take(20) { out.case(&format!("awrite {}", hex(w)), &format!("b{} {}", hex(w), w.len())); }
        st.add("writes", want.len() as u64);
    }
    st.rule = "real WebsocketStream on a loopback tokio-tungstenite server: (a) AsyncRead driven with scripted slice sizes 1..7000 over scripts of binary (1..66000 bytes), empty binary, text, ping and pong messages, chunks compared with the payloads and the model; (b) Framed sessions of 1..700 frames (all kinds) under six partition styles (one frame per message, several per message, random mid-frame cuts, messages of 1021..20000 bytes, 1..3-byte messages, one message) with 0/10/40 % interleaved non-binary messages, ended by a close handshake; (c) every kind written, the server must receive one binary message per packet equal to its frame; non-trivial = frames split across or sharing messages".into();
    st.sample("session C 424242 60 2 10  (60 frames cut at random byte positions into binary messages, 10% noise)".into());
    // a caller that reads its packets and then goes quiet
    { let iort = tokio::runtime::Builder::new_multi_thread().worker_threads(2).enable_all().build().unwrap();
      for compressed in [true, false] { for n in [1usize, 2, 7] { st.evaluations += 1; st.bump("idle after reads (websocket)");
        let replies = ws_idle_after_reads_case(&iort, compressed, n);
        if replies != n { st.fail(format!("[C20 websocket] the caller read the {n} keep-alive(s) of one message and then stayed idle (connection open): the peer received {replies} of the {n} replies"), format!("wsidle {} {n}", mode_tag(compressed))); } } } }
    // a lock-step peer over the WebSocket transport
    { let iort = tokio::runtime::Builder::new_multi_thread().worker_threads(2).enable_all().build().unwrap();
      for compressed in [true, false] { let rounds = if a.thorough() { 2000 } else { 400 };
        let (sent, handed, replies, done) = ws_lockstep_case(&iort, compressed, rounds, None); st.evaluations += sent as u64;
        if done != rounds || handed != sent || replies != sent { st.fail(format!("[C20 websocket] lock-step peer: round {done} of {rounds} never completed: {sent} keep-alives sent in 148/37-byte messages, {handed} handed to the caller, {replies} replies received"), format!("wslock {} {rounds}", mode_tag(compressed))); }
        st.bump("lock-step websocket sessions"); } }
    { let c2 = crate::conv::async_conversations("C20", a, &mut rng, &mut st, &mut out); st.distinct_nontrivial += c2.distinct.len() as u64; }
    crate::net::report_unconsumed("C20", &mut st);
    out.finish(&st);
}

fn fnv(s: &str) -> u64 { let mut h = 0xcbf29ce484222325u64; for b in s.bytes() { h ^= b as u64; h = h.wrapping_mul(0x100000001b3); } h }
